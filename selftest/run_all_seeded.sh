#!/bin/bash
# Re-runs the quick check of its property against every verified sub-agent change under /verif/seeded
# (regression of the catch table in DESIGN section 8.1).  One CAUGHT/MISSED line per change.
# usage: selftest/run_all_seeded.sh [seed]      (ONLY=C03 restricts to one property)
cd /verif
for d in seeded/*/; do
  d=${d%/}
  prop=$(/venv/bin/python -c "import json;print(json.load(open('$d/meta.json'))['property'])")
  [ -n "${ONLY:-}" ] && [[ "$prop" != $ONLY ]] && continue
  # a change written against an older /repo commit and neutralised by a later fix is replayed on that commit (meta: base_commit)
  base=$(/venv/bin/python -c "import json;print(json.load(open('$d/meta.json')).get('base_commit','HEAD'))")
  out=$(BASE=$base selftest/run_mutant.sh $d/patch.diff $prop quick ${1:-0})
  echo "$out" | sed "s#patch.diff#$(basename $d)#" | cut -c1-330
done
