#!/bin/bash
# Runs every seeded mutant against the quick check of its property; prints one CAUGHT/MISSED line each.
cd /verif
for f in selftest/mutants/*.diff; do
  prop=$(basename $f | cut -d_ -f1)
  [ -n "${ONLY:-}" ] && [[ "$prop" != $ONLY ]] && continue
  selftest/run_mutant.sh $f $prop quick ${SEED:-0}
done
