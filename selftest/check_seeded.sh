#!/bin/bash
# usage: selftest/check_seeded.sh <seeded dir> [tier] [seed] [extra property ids...]
# Verifies one sub-agent change: (1) its demo passes on the clean tree, (2) fails with the change,
# (3) the property's check (and any extra ones named) is run against the changed tree.
set -u
D=$(readlink -f "$1"); TIER=${2:-quick}; SEED=${3:-0}; shift; shift 2>/dev/null; shift 2>/dev/null
PROP=$(/venv/bin/python -c "import json,sys; print(json.load(open('$D/meta.json'))['property'])" 2>/dev/null || basename $D | cut -d_ -f1)
WT=$(mktemp -d /tmp/allfed_seeded_XXXXXX); EV=$(mktemp -d /tmp/allfed_seeded_ev_XXXXXX)
git -C /repo worktree add -q --detach "$WT" "${BASE:-HEAD}" >/dev/null 2>&1
DEMO=$(ls $D/demo*.py | head -1)
( cd $WT && PYTHONPATH=$WT timeout 600 /venv/bin/python $DEMO >/tmp/seeded_clean_$$.log 2>&1 ); RC_CLEAN=$?
if ! git -C "$WT" apply "$D/patch.diff"; then echo "PATCH-DOES-NOT-APPLY $D"; git -C /repo worktree remove --force "$WT"; exit 3; fi
( cd $WT && PYTHONPATH=$WT timeout 600 /venv/bin/python $DEMO >/tmp/seeded_changed_$$.log 2>&1 ); RC_CHANGED=$?
echo "demo: clean tree exit=$RC_CLEAN, changed tree exit=$RC_CHANGED ($(tail -1 /tmp/seeded_changed_$$.log | cut -c1-120))"
for P in $PROP "$@"; do
  OUT=$(cd /verif && ALLFED_VERIF_REPO="$WT" VERIF_EVIDENCE_DIR="$EV" VERIF_SEED=$SEED /venv/bin/python check.py "$P" --tier "$TIER" 2>&1 | grep -v conda)
  if echo "$OUT" | grep -q "^VIOLATION property=$P"; then echo "CAUGHT by $P ($TIER, seed $SEED): $(echo "$OUT" | grep '^VIOLATION' | head -2 | cut -c1-300 | tr '\n' ' ')"; else echo "MISSED by $P ($TIER, seed $SEED): $(echo "$OUT" | tail -2 | cut -c1-200 | tr '\n' ' ')"; fi
done
git -C /repo worktree remove --force "$WT" >/dev/null 2>&1; rm -rf "$EV" /tmp/seeded_clean_$$.log /tmp/seeded_changed_$$.log
