#!/bin/bash
# usage: selftest/run_mutant.sh <patch.diff> <PROP> [tier] [seed]
# Applies one patch to a scratch git worktree of /repo (outside /repo and /verif), runs the
# property's check against that copy (evidence and replays go to a temp dir, never to /verif/evidence),
# prints CAUGHT / MISSED and removes the worktree.
set -u
PATCH=$(readlink -f "$1"); PROP=$2; TIER=${3:-quick}; SEED=${4:-0}
WT=$(mktemp -d /tmp/allfed_mutant_XXXXXX); EV=$(mktemp -d /tmp/allfed_mutant_ev_XXXXXX)
git -C /repo worktree add -q --detach "$WT" "${BASE:-HEAD}" >/dev/null 2>&1 || { echo "worktree failed"; exit 3; }
# carry uncommitted working-tree changes of /repo too (normally none)
if ! git -C "$WT" apply "$PATCH" 2>/tmp/apply_err_$$; then echo "PATCH-DOES-NOT-APPLY $(basename $PATCH): $(head -1 /tmp/apply_err_$$)"; rm -f /tmp/apply_err_$$; git -C /repo worktree remove --force "$WT"; rm -rf "$EV"; exit 3; fi
rm -f /tmp/apply_err_$$
OUT=$(cd /verif && ALLFED_VERIF_REPO="$WT" VERIF_EVIDENCE_DIR="$EV" VERIF_SEED=$SEED /venv/bin/python check.py "$PROP" --tier "$TIER" 2>&1 | grep -v conda)
RC=$?
if echo "$OUT" | grep -q "^VIOLATION property=$PROP"; then
  echo "CAUGHT $(basename $PATCH) by $PROP: $(echo "$OUT" | grep '^VIOLATION' | head -2 | cut -c1-260 | tr '\n' ' ')"
  R=0
else
  echo "MISSED $(basename $PATCH) by $PROP: $(echo "$OUT" | tail -2 | cut -c1-300 | tr '\n' ' ')"
  R=1
fi
git -C /repo worktree remove --force "$WT" >/dev/null 2>&1; rm -rf "$EV"
exit $R
