#!/venv/bin/python
"""Generates selftest/mutants/<PROP>__<name>.diff: seeded changes to /repo (string
replacements turned into unified diffs against the working tree).  Every mutant
keeps the package importable; the self-test (selftest/run_all.sh) applies each to a
scratch worktree and expects the named property's quick check to report a VIOLATION."""
import difflib
import os
import sys

REPO = "/repo"
OUT = os.path.join(os.path.dirname(os.path.abspath(__file__)), "mutants")
OPT = "src/optimizer/optimizer.py"
PAR = "src/optimizer/parameters.py"
AP = "src/food_system/animal_populations.py"
MD = "src/food_system/meat_and_dairy.py"
OC = "src/food_system/outdoor_crops.py"
IR = "src/optimizer/interpret_results.py"
UC = "src/food_system/unit_conversions.py"
FD = "src/food_system/food.py"
RS = "src/scenarios/run_scenario.py"
SC = "src/scenarios/scenarios.py"
RM = "src/scenarios/run_model_no_trade.py"
FB = "src/food_system/feed_and_biofuels.py"
IU = "src/utilities/import_utilities.py"

# (property, name, file, old, new[, occurrence index (default: must be unique)])
M = [
    ("C01", "meat_cumulative_cap_removed", OPT, 'conditions["Meat_Eaten_Cumulative_Maximum"] = (\n            variables["meat_end"][month]\n            >= self.consts_for_optimizer["meat_summed_consumption"]\n            - self.time_consts["max_consumed_culled_kcals_each_month"][month]\n        )', 'pass'),
    ("C01", "scp_cap_loosened", OPT, 'total_methane_scp <= self.time_consts["methane_scp"].kcals[month]', 'total_methane_scp <= 1.05 * self.time_consts["methane_scp"].kcals[month]'),
    ("C01", "seaweed_growth_index_shift", OPT, 'growth_rate = self.time_consts["growth_rates_monthly"][month] / 100.0', 'growth_rate = self.time_consts["growth_rates_monthly"][month - 1] / 100.0 * 1.02'),
    ("C01", "crops_not_exhausted", OPT, '            conditions["Crops_Food_None_Left"] = (\n                variables["crops_food_storage"][month] == 0\n            )', '            pass'),
    ("C01", "feed_equality_relaxed", OPT, '                conditions["Feed_Used"] = (\n                    feed_sum == self.time_consts["feed"].kcals[month]\n                )', '                conditions["Feed_Used"] = (\n                    feed_sum <= self.time_consts["feed"].kcals[month]\n                )'),
    ("C01", "stored_food_retail_waste_dropped", OPT, '            - variables["stored_food_to_humans"][month]\n            * 1\n            / (\n                1 - self.consts_for_optimizer["STORED_FOOD_WASTE_RETAIL"] / 100\n            )  # increase calories, fat, and protein humans consumed by retail waste coefficient\n            - variables["stored_food_feed"][month]\n            - variables["stored_food_biofuel"][month]\n        )\n\n        return conditions', '            - variables["stored_food_to_humans"][month]\n            - variables["stored_food_feed"][month]\n            - variables["stored_food_biofuel"][month]\n        )\n\n        return conditions'),
    ("C02", "feed_biofuel_weights_swapped", OPT, '            variables["objective_function"] <= 2 / 3 * feed_sum + biofuel_sum / 3,', '            variables["objective_function"] <= 1 / 3 * feed_sum + 2 * biofuel_sum / 3,'),
    ("C02", "milk_month_shift", OPT, '                + self.time_consts["milk_kcals"][month]\n', '                + self.time_consts["milk_kcals"][month - 1]\n'),
    ("C02", "needs_scaled_down", OPT, '            / self.consts_for_optimizer["BILLION_KCALS_NEEDED"]\n            * 100,\n            "Kcals_Fed_Month_"', '            / (self.consts_for_optimizer["BILLION_KCALS_NEEDED"] * 0.999)\n            * 100,\n            "Kcals_Fed_Month_"'),
    ("C02", "intake_cap_tenfold_tighter", OPT, '        initial_population_minimum_needs = (\n            self.consts_for_optimizer["POP"]\n            * self.consts_for_optimizer["KCALS_MONTHLY"]\n            / 1e9\n        )', '        initial_population_minimum_needs = (\n            self.consts_for_optimizer["POP"]\n            * self.consts_for_optimizer["KCALS_MONTHLY"]\n            / 1e10\n        )'),
    ("C03", "humans_pinned_at_90_percent_of_threshold", PAR, '            kcals_daily_maximum = (\n                constants_inputs["NUTRITION"]["KCALS_DAILY"]\n                * fraction_to_feed_people_first\n            )', '            kcals_daily_maximum = (\n                constants_inputs["NUTRITION"]["KCALS_DAILY"]\n                * fraction_to_feed_people_first\n                * 0.9\n            )'),
    ("C03", "feed_one_month_past_shutoff", FB, '            [self.feed_monthly_usage.kcals] * feed_duration\n            + [0] * (self.NMONTHS - feed_duration)', '            [self.feed_monthly_usage.kcals] * min(self.NMONTHS, feed_duration + 1)\n            + [0] * (self.NMONTHS - min(self.NMONTHS, feed_duration + 1))'),
    ("C03", "offset_bump_without_meat_guard", PAR, '            and constants_inputs["ADD_MEAT"]  # the offset below only exists if people eat the extra meat\n', ''),
    ("C04", "stored_food_rounded_to_whole_percent", IR, "stored_food_rounded = self.stored_food.get_rounded_to_decimal(3)", "stored_food_rounded = self.stored_food.get_rounded_to_decimal(0)"),
    ("C04", "minimum_floor_099", OPT, "            model.objective.value() * 0.99995\n        )  # reach almost the same as objective, but allow for small rounding error if needed\n\n        # Add the constraint for consumed_kcals each month\n        for month", "            model.objective.value() * 0.99\n        )  # reach almost the same as objective, but allow for small rounding error if needed\n\n        # Add the constraint for consumed_kcals each month\n        for month"),
    ("C04", "csv_columns_swapped", IR, '                "milk": np.array(self.milk_kcals_equivalent.kcals),\n                "meat": np.array(self.meat_kcals_equivalent.kcals),', '                "milk": np.array(self.meat_kcals_equivalent.kcals),\n                "meat": np.array(self.milk_kcals_equivalent.kcals),'),
    ("C04", "milk_dropped_from_headline_sum", IR, "            + self.meat\n            + self.milk\n        )", "            + self.meat\n        )"),
    ("C05", "small_animal_energy_density_changed", MD, "self.SMALL_ANIMAL_KCALS_PER_KG = 1525", "self.SMALL_ANIMAL_KCALS_PER_KG = 1625"),
    ("C05", "retail_waste_applied_to_meat", MD, "            initial_meat_prewaste * (1 - self.MEAT_WASTE_DISTRIBUTION / 100),", "            initial_meat_prewaste\n            * (1 - self.MEAT_WASTE_DISTRIBUTION / 100)\n            * (1 - self.MEAT_WASTE_RETAIL / 100),"),
    ("C05", "milk_from_dairy_cattle_only", AP, '            if "milk" in animal.animal_type:\n                total_dairy += np.array(animal.population)', '            if animal.animal_type == "milk_cattle":\n                total_dairy += np.array(animal.population)'),
    ("C03", "round3_herds_fed_full_demand", PAR, "                available_feed=feed_sum_billion_kcals,", "                available_feed=feed_demand,"),
    ("C06", "births_counted_twice", AP, "                new_additive_animals_month = (\n                    births[animal.animal_type]\n                    + transfer_populations[animal.animal_species]\n                )", "                new_additive_animals_month = (\n                    2 * births[animal.animal_type]\n                    + transfer_populations[animal.animal_species]\n                )"),
    ("C06", "retirements_not_subtracted", AP, "            new_other_animal_death + retiring_animals,\n            current_slaughter_rate,", "            new_other_animal_death,\n            current_slaughter_rate,"),
    ("C06", "target_floor_removed", AP, "        elif (\n            new_animal_population_pre_slaughter - new_slaughter_rate\n            < animal.target_population_head\n        ):", "        elif False:"),
    ("C06", "slaughter_hours_shared_across_sizes", AP, "            for animal in animals\n            if animal.animal_size == category\n        )", "            for animal in animals\n        )"),
    ("C07", "efficiencies_swapped", AP, "        digestion_efficiency_grass=0.6,\n        digestion_efficiency_feed=0.8,", "        digestion_efficiency_grass=0.8,\n        digestion_efficiency_feed=0.6,"),
    ("C07", "grass_for_everyone", AP, "            is_ruminant = animal in ruminants", "            is_ruminant = True"),
    ("C07", "fed_count_floor_instead_of_round", AP, "                self.population_fed = round(\n                    fraction_of_requirement_met * self.current_population\n                )", "                self.population_fed = int(\n                    fraction_of_requirement_met * self.current_population * 0.98\n                )"),
    ("C07", "fed_ratio_against_remaining_balance", AP, "                fraction_of_requirement_met = NE_provided / self.NE_balance.kcals\n                self.NE_balance.kcals -= NE_provided", "                self.NE_balance.kcals -= NE_provided\n                fraction_of_requirement_met = NE_provided / self.NE_balance.kcals"),
    ("C07", "priority_order_reversed", AP, "                key=lambda item: item[1].net_kcals_gained_per_hour_slaughter_this_month,\n                reverse=True,", "                key=lambda item: item[1].net_kcals_gained_per_hour_slaughter_this_month,\n                reverse=False,"),
    ("C08", "calendar_start_off_by_one", OC, "        month_index = self.STARTING_MONTH_NUM - 1\n", "        month_index = self.STARTING_MONTH_NUM\n"),
    ("C08", "first_year_seven_months", OC, "            MAY_UNTIL_DECEMBER_FIRST_YEAR_REDUCTION,\n            8,\n        )", "            MAY_UNTIL_DECEMBER_FIRST_YEAR_REDUCTION,\n            7,\n        )"),
    ("C08", "stock_of_start_month_instead_of_previous", "src/food_system/stored_food.py", "        month_before_index = starting_month_index - 1", "        month_before_index = starting_month_index"),
    ("C08", "sugar_ignores_delay", "src/food_system/cellulosic_sugar.py", '            industrial_delay_months = [0] * constants_for_params["DELAY"][\n                "INDUSTRIAL_FOODS_MONTHS"\n            ]', '            industrial_delay_months = [0] * 0'),
    ("C08", "seaweed_area_cap_removed", "src/food_system/seaweed.py", "        built_area_long[built_area_long > self.MAXIMUM_SEAWEED_AREA] = (\n            self.MAXIMUM_SEAWEED_AREA\n        )", "        pass"),
    ("C08", "grass_last_year_not_extended", MD, "                    * (12 + 4),", "                    * (12 + 3) + [0.0],"),
    ("C09", "half_of_greenhouse_area_subtracted", OC, "                    np.array(self.KCALS_GROWN[hd:]), (1 - greenhouse_fraction_area[hd:])", "                    np.array(self.KCALS_GROWN[hd:]), (1 - greenhouse_fraction_area[hd:] / 2)"),
    ("C09", "integer_buffer_again", OC, "                crops_produced = np.zeros(self.NMONTHS)", "                crops_produced = np.array([0] * self.NMONTHS)"),
    ("C09", "production_rounded", OC, "            kcals=np.array(crops_produced) * (1 - self.CROP_WASTE_DISTRIBUTION / 100),", "            kcals=np.round(np.array(crops_produced) * (1 - self.CROP_WASTE_DISTRIBUTION / 100), 3),"),
    ("C09", "greenhouse_ramp_one_month_short", "src/food_system/greenhouses.py", "                        np.linspace(0, GREENHOUSE_LIMIT_AREA, 37),", "                        np.linspace(0, GREENHOUSE_LIMIT_AREA, 36),"),
    ("C09", "exponent_applied_above_one", OC, "            if baseline_reduction > 1:\n                self.KCALS_GROWN.append(month_kcals * baseline_reduction)\n            else:", "            if baseline_reduction > 1e9:\n                self.KCALS_GROWN.append(month_kcals * baseline_reduction)\n            else:"),
    ("C10", "fat_billions_fed_factor", UC, "        thou_tons_fat_to_billion_people = 1 / conversions.fat_monthly / 1e9", "        thou_tons_fat_to_billion_people = 1 / conversions.fat_monthly"),
    ("C10", "per_month_result_labelled_each_month", UC, '            new_units_kcals = to_units_kcals + " per month"\n', '            new_units_kcals = to_units_kcals + " each month"\n'),
    ("C10", "thirty_one_day_month_for_kcals", UC, "        self.kcals_monthly = kcals_daily * self.days_in_month", "        self.kcals_monthly = kcals_daily * 31"),
    ("C11", "neg_mixes_labels", FD, "            kcals=-self.kcals,\n            fat=-self.fat,\n            protein=-self.protein,\n            kcals_units=self.kcals_units,\n            fat_units=self.fat_units,", "            kcals=-self.kcals,\n            fat=-self.fat,\n            protein=-self.protein,\n            kcals_units=self.fat_units,\n            fat_units=self.fat_units,"),
    ("C11", "shift_in_place", FD, "        kcals_shifted = np.roll(self.kcals, months)\n", "        self.kcals[:] = np.roll(self.kcals, months)\n        kcals_shifted = self.kcals\n"),
    ("C11", "sum_keeps_each_month", FD, "        food_sum.set_units_from_list_to_total()\n\n        # Return the summed up nutrient values with altered units\n        return food_sum", "        return food_sum"),
    ("C11", "label_list_not_refreshed", UC, "        ] = self.get_units_from_list_to_element()\n        self.units = [self.kcals_units, self.fat_units, self.protein_units]", "        ] = self.get_units_from_list_to_element()"),
    ("C11", "add_ignores_unit_check", FD, '        assert (\n            self.units == other.units\n        ), "ERROR: adding foods with different units!"', "        pass"),
    ("C12", "milk_subtracted_from_consumption", OPT, '                + self.time_consts["milk_kcals"][month]\n', '                - self.time_consts["milk_kcals"][month]\n'),
    ("C12", "intake_cap_absolute_constant", OPT, '        initial_population_minimum_needs = (\n            self.consts_for_optimizer["POP"]\n            * self.consts_for_optimizer["KCALS_MONTHLY"]\n            / 1e9\n        )', '        initial_population_minimum_needs = 2000.0'),
    ("C12", "reduced_population_cap_uses_population", OPT, '                                    variables["consumed_kcals"][month]\n                                    * self.consts_for_optimizer["BILLION_KCALS_NEEDED"]\n                                    / 100', '                                    variables["consumed_kcals"][month]\n                                    * (self.consts_for_optimizer["POP"] ** 0.98 * 8e-5)\n                                    / 100'),
    ("C13", "waste_may_be_set_twice", SC, '        self.scenario_description += "\\nno waste"\n        assert not self.WASTE_SET\n', '        self.scenario_description += "\\nno waste"\n'),
    ("C13", "fish_setter_writes_waste", SC, '        self.scenario_description += "\\nno fish"\n        assert not self.FISH_SET\n', '        self.scenario_description += "\\nno fish"\n        assert not self.FISH_SET\n        constants_for_params["WASTE_RETAIL"] = 0\n'),
    ("C13", "crop_multiplier_first_year_only", RS, '            constants_for_params["RATIO_CROPS_YEAR2"] *= multiplier\n', ''),
    ("C13", "options_not_copied", RS, "        unchanged_scenario_option_copy = copy.deepcopy(scenario_option)\n        altered_scenario_option = copy.deepcopy(scenario_option)", "        unchanged_scenario_option_copy = scenario_option\n        altered_scenario_option = scenario_option\n        scenario_option.setdefault('buffer', 'baseline')"),
    ("C13", "strip_instead_of_suffix_removal", AP, '                column_name = key[: -len("_start")] if key.endswith("_start") else key', '                column_name = key.strip("_start")'),
    ("C13", "unknown_cull_value_accepted", RS, '        elif scenario_option_copy["cull"] == "dont_eat_culled":', '        elif scenario_option_copy["cull"] != "":'),
    ("C14", "nutrition_set_only_once", PAR, "        Food.conversions.set_nutrition_requirements(\n            kcals_daily=KCALS_DAILY,", "        if not getattr(Food.conversions, 'NUTRITION_PROPERTIES_ASSIGNED', False):\n          Food.conversions.set_nutrition_requirements(\n            kcals_daily=KCALS_DAILY,"),
    ("C14", "seasonality_cached_at_module_level", OC, "        month_index = self.STARTING_MONTH_NUM - 1\n", "        month_index = self.STARTING_MONTH_NUM - 1\n        global _SEAS_CACHE\n        try:\n            _SEAS_CACHE\n        except NameError:\n            _SEAS_CACHE = list(constants_for_params['SEASONALITY'])\n        constants_for_params = dict(constants_for_params, SEASONALITY=_SEAS_CACHE)\n"),
    ("C15", "cap_removed", RM, "            if needs_ratio >= 1:\n                capped_ratio = 1\n            else:\n                capped_ratio = needs_ratio", "            capped_ratio = needs_ratio"),
    ("C15", "population_counted_before_nan_check", RM, "            population = country_data[\"population\"]\n", "            population = country_data[\"population\"]\n            net_pop += 0.001 * population\n"),
    ("C15", "exclusion_also_needs_prefix_match", RM, '                if "!" in c:\n                    countries_to_skip.append(c.replace("!", ""))', '                if c.startswith("!A") or c.startswith("!B"):\n                    countries_to_skip.append(c.replace("!", ""))'),
    ("C16", "round2_band_too_tight", OPT, "            lower_bound = 0.99999 * min_consumption\n            upper_bound = 1.00001 * min_consumption", "            lower_bound = 1.0000001 * min_consumption\n            upper_bound = 1.0000002 * min_consumption"),
    ("C16", "preset_value_renamed_in_dispatcher", RS, '        elif scenario_option_copy["shutoff"] == "long_delayed_shutoff":', '        elif scenario_option_copy["shutoff"] == "long_shutoff":'),
    ("C17", "validity_bound_moved", IU, "            if not (-100 <= percentage <= 1e5):", "            if not (-99 <= percentage <= 1e5):"),
    ("C17", "unit_factor_in_import_script", "src/import_scripts_no_food_trade/create_aquaculture_csv.py", 'df_aquaculture.columns = ["iso3", "country", "aq_kcals", "aq_fat", "aq_protein"]', 'df_aquaculture.columns = ["iso3", "country", "aq_kcals", "aq_fat", "aq_protein"]\ndf_aquaculture["aq_fat"] = df_aquaculture["aq_fat"] * 1.001'),
    ("C18", "priority_fish_after_meat", PAR, "            fish_consumption.append(\n                consume(\n                    interpreted_results_round1.fish_kcals_equivalent[month_index].kcals\n                )\n            )\n            meat_consumption.append(\n                consume(\n                    interpreted_results_round1.meat_kcals_equivalent[month_index].kcals\n                )\n            )", "            meat_consumption.append(\n                consume(\n                    interpreted_results_round1.meat_kcals_equivalent[month_index].kcals\n                )\n            )\n            fish_consumption.append(\n                consume(\n                    interpreted_results_round1.fish_kcals_equivalent[month_index].kcals\n                )\n            )"),
    ("C18", "fill_takes_from_first_surplus_leaves_rest", PAR, "                adjustment = min(-arr[neg_idx], arr[i])\n", "                adjustment = min(-arr[neg_idx], arr[i]) * 0.5\n"),
    ("C18", "bump_uses_maximum", PAR, "            0, np.minimum(feed + increase, max_feed) - feed\n", "            0, np.maximum(feed + increase, max_feed) - feed\n"),
    ("C18", "retimed_meat_total_not_preserved", PAR, "        new_round_2_meat_kcals = round_2_meat_kcals + adjustment_to_round2\n", "        new_round_2_meat_kcals = round_2_meat_kcals + adjustment_to_round2 * 0.9\n"),
]


def main():
    os.makedirs(OUT, exist_ok=True)
    for f in os.listdir(OUT):
        if f.endswith(".diff"):
            os.remove(os.path.join(OUT, f))
    bad = 0
    for m in M:
        prop, name, path, old, new = m[:5]
        src = open(os.path.join(REPO, path), newline="").read()
        if "\r\n" in src:  # keep CRLF files CRLF so that the diff applies
            old, new = old.replace("\n", "\r\n"), new.replace("\n", "\r\n")
        n = src.count(old)
        if len(m) > 5:
            idx = m[5]
            pos = -1
            for _ in range(idx + 1):
                pos = src.index(old, pos + 1)
            mutated = src[:pos] + new + src[pos + len(old):]
        else:
            if n != 1:
                print("SKIP %s/%s: anchor occurs %d times in %s" % (prop, name, n, path))
                bad += 1
                continue
            mutated = src.replace(old, new)
        try:
            if path.endswith(".py"):
                compile(mutated, path, "exec")
        except SyntaxError as e:
            print("SKIP %s/%s: mutant does not compile: %s" % (prop, name, e))
            bad += 1
            continue
        diff = "".join(difflib.unified_diff(src.splitlines(True), mutated.splitlines(True), "a/" + path, "b/" + path))
        open(os.path.join(OUT, "%s__%s.diff" % (prop, name)), "w", newline="").write(diff)
    print("wrote", len(M) - bad, "mutants;", bad, "skipped")
    return 1 if bad else 0


if __name__ == "__main__":
    sys.exit(main())
