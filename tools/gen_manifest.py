#!/venv/bin/python
"""Regenerates MANIFEST.json from the table below; a property is claimed only if
its monitor module props/<id>.py exists."""
import json
import os
import subprocess

ROOT = os.path.dirname(os.path.dirname(os.path.abspath(__file__)))

T = {
    "C01": ("offline ledger audit of every solved LP (independent numpy ledger from the supplies) over recorded optimiser traces",
            "Every LP the real three-round pipeline solves on a pairwise-covering + preset + random option grid over hostile/all countries is audited month by month against a ledger recomputed from the supplies only; evidence reports LPs audited per round type and how often each ledger family was active/binding.",
            "Trusts PuLP's varValue read-back and numpy; tolerances 1e-6 relative to the ledger scale; option space is sampled (pairwise + presets + random), countries complete only in the thorough tier."),
    "C02": ("differential optimum check: independent sparse LP formulation solved with HiGHS vs. the reported first-stage objective",
            "Each captured LP instance is re-formulated independently (not a line of PuLP) from consts/time_consts and solved by HiGHS; reported objective must match within 5e-6 relative in both directions. For the feed-maximising round the allocation handed on after the secondary solves must also be worth the optimum. Evidence lists per constraint family how often it was tight at the reference optimum.",
            "Trusts scipy HiGHS as the reference solver and the harness's reading of the property statement as the reference formulation; effects below 5e-6 relative are invisible."),
    "C03": ("trace monitor over the three dependent rounds (p1, p3, threshold, demand and charged series) of real runs",
            "Three-round runs over shut-off schedules x stock regimes x thresholds 0..100 x countries; the monitor checks the humans-first implications and the demand/shut-off ceilings on every month of every round.",
            "Tolerance 0.1 percent-fed units as in the repository's own (disabled) validator; option space sampled."),
    "C04": ("trace monitor comparing interpreter output, optimiser variables and the CSV read back from disk",
            "Every round of every grid run: headline vs min of per-food sums, per-food series vs independently converted allocations, headline vs optimiser objective, CSV round trip, the final table under the run's title must be this run's (a stale one is planted first), immediate+new-stored = crops to humans.",
            "Trusts pandas CSV parsing; conversion constant recomputed from POP and KCALS_DAILY only."),
    "C05": ("reference-model monitor: independent per-head yield table applied to the captured herd simulation vs. the optimiser inputs",
            "For every round of every grid run the meat and milk series handed to the optimiser are recomputed from the captured herd objects with an independent yield table; feed charged vs eaten, grass used vs available, zero-feed coupling.",
            "The yield constants are transcribed from the documentation/code comments; species classification read from the species' own size attribute."),
    "C06": ("conservation monitor (head-count ledger) over herd trajectories returned by animal_populations.main plus slaughter-hour budget recorder",
            "Every species x month of herd runs over countries x strategies x feed/grass supply shapes x horizons is checked against the stock-and-flow ledger, transfer identity, non-negativity, slaughter capacity, availability and target floor.",
            "Index alignment of the returned lists as documented in DESIGN.md; tolerance 1e-9 relative."),
    "C07": ("pre/post-state contract on AnimalSpecies.feed_the_species (direct generated calls + wrapped inside real herd runs) and priority-order monitor",
            "Per-call energy accounting, fed/starving consistency and per-month supply bounds and priority order, on generated boundary inputs and on every call made by real herd runs.",
            "Digestion efficiencies 0.6/0.8 and the fed = herd x delivered/required rule taken from the property statement."),
    "C08": ("reference-implementation monitor: closed-form calendar/delay/ramp formulas vs. the series returned by compute_parameters_first_round and by the food_system classes on generated constants",
            "All countries x supply-affecting options x horizons, multi-country calls through the real dispatcher, the demand caps as the feed-maximising round receives them in real runs, plus generated constants for the food_system classes; includes scaling metamorphic relation.",
            "Reference formulas written from docstrings/README; 1e-9 relative tolerance."),
    "C09": ("reference-model + metamorphic monitor on outdoor crops / greenhouse area series (paired runs, generated constants)",
            "Production vs grown x (1-greenhouse fraction), greenhouse area ramp, relocation/expansion monotonicity, absence of quantisation via exact scaling of tiny baselines, and the harvest constants inside the models real runs build compared with the series handed over.",
            "Greenhouse fraction read from the Greenhouses object captured in the same run."),
    "C10": ("round-trip / path-independence / anchor monitor over Food.in_units on exhaustively enumerated unit pairs with generated settings",
            "All ordered unit pairs per nutrient (exhaustive), sampled triples, scalar and monthly quantities, random population and requirement settings.",
            "1e-12 relative tolerance; unit names enumerated from the repository's own multiplier tables."),
    "C11": ("stateful generated operation sequences on Food objects checked against a reference label algebra and operand snapshots",
            "Seeded operation sequences over a pool of scalar and monthly quantities under all four flag settings; labels, label list, shape class, operand immutability, unit-mismatch refusal, ratio commutativity, scalar/one-month predicate agreement.",
            "Reference label algebra transcribed from the property statement and docstrings."),
    "C12": ("metamorphic re-execution of the real Optimizer on perturbed deep copies of captured LP inputs",
            "Each captured round-1/round-3 instance is re-solved with every supply family raised, each waste lowered, charges raised, and common scale factors; monotonicity and scale-invariance of the first-stage objective are checked.",
            "Tolerance 3e-5 relative (CBC's 8 significant digits and gapRel)."),
    "C13": ("specification-table monitor over Scenarios setters and ScenarioRunner.set_depending_on_option (accepted values, rejections, exactly-once, option immutability, override diff)",
            "Every option value, unknown values, missing keys, every ordered pair of setters, every numeric override and every species head-count override x sampled country rows.",
            "Specification table transcribed from scenarios/README.md and setter docstrings."),
    "C14": ("differential history monitor: digests of runs inside varied in-process histories vs. the same run alone in a fresh process",
            "Histories with permutations, repeats, sandwiches, scale/nutrition/horizon alternations and failing runs; bit-exact digest comparison.",
            "Digest covers headline, every monthly series of the interpreter, meat and herd dictionaries and optimiser objectives."),
    "C15": ("trace monitor on run_model_no_trade: selection log from a wrapper on run_optimizer_for_country vs. the returned aggregate",
            "Inclusion, exclusion, mixed and empty selections; aggregate recomputed from the per-country log; exactly-once appearance.",
            "Population read from the input table."),
    "C16": ("exhaustive execution of the country x preset grid with the repository's validation on",
            "Every cell of the grid (164 countries + world) x (shipped YAML simulations, manuscript scenarios, single-option variations of every preset for a fixed sample of countries, report-mode runs, the yaml entry point itself on shipped and generated files) is executed; failures are reported per cell.",
            "A run is successful iff it returns without raising and the headline is finite and non-negative; manuscript presets use the documented option key."),
    "C17": ("pipeline re-execution in a scratch copy with byte/cell comparison, table invariant scan, and generated inputs for the averaging helper",
            "All 21 import scripts re-run on the shipped raw data; outputs compared byte for byte and cell by cell; combined-table invariants; hypothesis vectors for the percentage-averaging helper.",
            "Scripts run with the repository's interpreter in a git-initialised scratch copy outside /repo."),
    "C18": ("pre/post-condition monitors on the hand-off helpers (generated arrays) and on the hand-offs of real runs",
            "Direct generated calls to the four helpers plus the captured hand-offs of every grid run.",
            "Priority order and bounds transcribed from the property statement."),
}

ORDER = ["C%02d" % i for i in range(1, 19)]


def main():
    checks = []
    na = []
    for pid in ORDER:
        technique, text, note = T[pid]
        if os.path.exists(os.path.join(ROOT, "props", pid.lower() + ".py")):
            checks.append({
                "property_id": pid,
                "quick_cmd": "/venv/bin/python check.py %s --tier quick" % pid,
                "thorough_cmd": "/venv/bin/python check.py %s --tier thorough" % pid,
                "evidence_file": "/verif/evidence/%s.json" % pid,
                "replay_cmd_template": "/venv/bin/python check.py %s --replay {path}" % pid,
                "engine": "runtime-monitor",
                "level_claimed": {"category": "exploration", "text": text, "design_ref": "DESIGN.md section 3, " + pid},
                "level_note": note,
                "technique": "runtime monitoring: " + technique,
            })
        else:
            na.append({"property_id": pid, "reason": "monitor not implemented yet in this revision (runtime monitoring applies; see DESIGN.md section 3)"})
    m = {
        "version": 1,
        "setup_cmd": "/venv/bin/python tools/setup_check.py",
        "hooks": {
            "guard": "ALLFED_INTEGRATED_MODEL_VERIF",
            "enable": "no source hooks: all instrumentation is applied from the harness by wrapping attributes at run time (vlib/capture.py); checks export ALLFED_INTEGRATED_MODEL_VERIF=1 for completeness",
            "baseline_off_cmd": "cd /repo && /venv/bin/python -m pytest -ra -q -p no:cacheprovider --timeout=900 --continue-on-collection-errors",
            "source_commits": [],
            "add_only": True,
        },
        "engines": [{"name": "runtime-monitor", "path": "/verif/check.py", "serves_properties": [c["property_id"] for c in checks],
                     "kind_free_text": "Python harness: wrappers on the real functions record traces, offline oracles check them; subprocess shard runner"}],
        "checks": checks,
        "not_applicable": na,
        "notes": "All checks run /repo's working tree with /venv/bin/python; exit 0 held on observed, 1 violation, 2 inconclusive. Known findings in /verif/known_findings.json.",
    }
    with open(os.path.join(ROOT, "MANIFEST.json"), "w") as fh:
        json.dump(m, fh, indent=1)
        fh.write("\n")
    print("claimed", [c["property_id"] for c in checks])


if __name__ == "__main__":
    main()
