#!/venv/bin/python
"""setup_cmd: nothing to build (pure-Python harness, no third-party deps beyond
what /venv already has); verifies the interpreter and the libraries the monitors
need, offline."""
import sys

import numpy
import scipy
from scipy.optimize import linprog  # noqa: F401  (HiGHS reference solver)
import pandas  # noqa: F401
import pulp  # noqa: F401
import hypothesis  # noqa: F401

print("setup ok: python", sys.version.split()[0], "numpy", numpy.__version__, "scipy", scipy.__version__)
