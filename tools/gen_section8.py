#!/venv/bin/python
"""Rewrites section 8 of DESIGN.md from selftest/results.txt (output of selftest/run_all.sh) and seeded/*/meta.json."""
import glob
import json
import os
import re

ROOT = os.path.dirname(os.path.dirname(os.path.abspath(__file__)))
p = os.path.join(ROOT, "DESIGN.md")
s = open(p).read()
i = s.index("## 8. Which checks catch which changes")
out = ["## 8. Which checks catch which changes", "",
       "### 8.1 Changes written by fresh sub-agents (`/verif/seeded/`)", "",
       "Each agent saw only the text of one property and a scratch worktree of /repo. Every change compiles, keeps the pinned tests green (as run by the agent) and comes with a demonstration that fails with the change and passes without it; `selftest/check_seeded.sh` re-verified both and ran the checks.", "",
       "| change | property | needs in order to manifest | result |", "|---|---|---|---|"]
for d in sorted(glob.glob(os.path.join(ROOT, "seeded", "*", "meta.json"))):
    m = json.load(open(d))
    name = os.path.basename(os.path.dirname(d))
    res = "; ".join("**%s**: %s" % (k, v) for k, v in m.get("caught_by", {}).items())
    out.append("| `%s` — %s | %s | %s | %s |" % (name, m.get("change", "").replace("|", "/"), m.get("property"), m.get("needs_to_manifest", "").replace("|", "/"), res.replace("|", "/")))
out += ["", "### 8.2 Mutants of `selftest/make_mutants.py` (quick tier, seed 0)", ""]
rp = os.path.join(ROOT, "selftest", "results.txt")
if os.path.exists(rp):
    rows = []
    for line in open(rp):
        m = re.match(r"(CAUGHT|MISSED|PATCH-DOES-NOT-APPLY) (\S+?)\.diff by (C\d+): (.*)", line)
        if not m:
            continue
        mech = re.findall(r"mechanism=(\S+)", m.group(4))
        rows.append((m.group(3), m.group(2).split("__", 1)[1], m.group(1), ", ".join(sorted(set(mech)))[:160]))
    caught = sum(1 for r in rows if r[2] == "CAUGHT")
    out.append("%d of %d mutants caught by the quick check of their property." % (caught, len(rows)))
    out += ["", "| property | mutant | result | reported mechanism(s) |", "|---|---|---|---|"]
    for r in sorted(rows):
        out.append("| %s | %s | %s | %s |" % r)
else:
    out.append("(run `selftest/run_all.sh > selftest/results.txt`)")
open(p, "w").write(s[:i] + "\n".join(out) + "\n")
print("section 8 written:", len(out), "lines")
