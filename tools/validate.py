#!/opt/veriftools/pyvenv/bin/python
"""Validate MANIFEST.json and every evidence file against the given schemas."""
import glob
import json
import sys

try:
    import jsonschema
except ImportError:
    sys.path.insert(0, "/opt/veriftools/pyvenv/lib/python3.11/site-packages")
    import jsonschema

ok = True
m = json.load(open("/verif/MANIFEST.json"))
jsonschema.validate(m, json.load(open("/root/.vp/MANIFEST.schema.json")))
print("MANIFEST ok;", len(m["checks"]), "checks")
es = json.load(open("/root/.vp/EVIDENCE.schema.json"))
for f in sorted(glob.glob("/verif/evidence/*.json")):
    try:
        jsonschema.validate(json.load(open(f)), es)
        print("ok", f)
    except Exception as e:
        ok = False
        print("INVALID", f, str(e)[:300])
sys.exit(0 if ok else 1)
