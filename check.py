#!/venv/bin/python
"""check.py <ID> [--tier quick|thorough] [--replay file]

Runs the runtime monitors of one property against the working tree of /repo
(or $ALLFED_VERIF_REPO for self-tests), writes evidence/<ID>.json and prints
  VIOLATION property=<id> replay=<path>     (exit 1) for unlisted violations,
  KNOWN-FINDING: property=<id> <what>       for violations listed as open findings,
  INCONCLUSIVE property=<id> reason=...     (exit 2) when a deciding monitor was not reached.
"""
import argparse
import collections
import importlib
import json
import os
import sys
import time

ROOT = os.path.dirname(os.path.abspath(__file__))
sys.path.insert(0, ROOT)
os.environ.setdefault("PYTHONHASHSEED", "0")

from vlib import env, evidence, findings, runner  # noqa: E402
from vlib.jsonutil import to_jsonable  # noqa: E402


def main():
    ap = argparse.ArgumentParser()
    ap.add_argument("prop")
    ap.add_argument("--tier", default=os.environ.get("VERIF_TIER", "quick"), choices=["quick", "thorough"])
    ap.add_argument("--replay")
    ap.add_argument("--max-cases", type=int, default=0)
    a = ap.parse_args()
    prop = a.prop.upper()
    mod = importlib.import_module("props." + prop.lower())
    seed = env.seed()
    t0 = time.time()
    if a.replay:
        doc = json.load(open(a.replay))
        cases = [doc["case"]]
        tier = doc.get("tier", a.tier)
    else:
        tier = a.tier
        cases = mod.gen_cases(tier, seed)
        if a.max_cases:
            cases = cases[: a.max_cases]
    for n, c in enumerate(cases):
        c.setdefault("id", "case%d" % n)
    watchdog = getattr(mod, "WATCHDOG_S", {"quick": 1500, "thorough": 6 * 3600})[tier]
    records, infra = runner.run_cases(prop, cases, tier, watchdog_s=watchdog,
                                      nshards=getattr(mod, "NSHARDS", None))
    known = findings.load()
    unlisted = collections.OrderedDict()  # mech -> list of (case, viol)
    listed = collections.OrderedDict()  # finding id -> [entry, count, first]
    nviol = 0
    for case, rec in zip(cases, records):
        for v in rec.get("viol", []):
            e = findings.classify(prop, v, known)
            if e is not None:
                slot = listed.setdefault(e["id"], [e, 0, (case, v)])
                slot[1] += 1
            else:
                nviol += 1
                unlisted.setdefault(v.get("mech", "unspecified"), []).append((case, v))
    coverage = mod.summarize(cases, records, tier)
    inconclusive = coverage.pop("inconclusive_reason", None)
    if a.replay:
        inconclusive = None  # coverage floors are about whole workloads, not about one replayed case
    n_inc = sum(1 for r in records if r.get("status") == "inconclusive")
    coverage["cases_inconclusive"] = n_inc
    coverage["infra"] = {k: v for k, v in infra.items() if k != "worker_logs"}
    if infra.get("worker_logs"):
        coverage["infra"]["worker_log_tails"] = infra["worker_logs"][:3]
    writes = [w for r in records for w in r.get("repo_writes", [])]
    coverage["writes_under_repo"] = sorted(set(writes))[:10]
    coverage["known_findings_seen"] = {k: {"count": s[1], "what": s[0].get("what", "")} for k, s in listed.items()}
    coverage["unlisted_violation_mechanisms"] = {k: len(v) for k, v in unlisted.items()}
    if n_inc and n_inc > max(2, 0.05 * len(cases)) and not inconclusive:
        inc_reasons = collections.Counter(str(r.get("reason"))[:120] for r in records if r.get("status") == "inconclusive")
        inconclusive = "%d of %d cases inconclusive: %s" % (n_inc, len(cases), dict(inc_reasons.most_common(3)))
    # replay files + verdict lines
    lines = []
    rdir = os.path.join(os.environ.get("VERIF_EVIDENCE_DIR") or os.path.join(ROOT, "evidence"), "replays", prop)
    if unlisted and not a.replay:
        os.makedirs(rdir, exist_ok=True)
    if unlisted and not a.replay:
        # one line per unlisted violation (all of them, not only the first three replays), for triage
        with open(os.path.join(rdir, "all_unlisted.jsonl"), "w") as fh:
            for mech, lst in unlisted.items():
                for case, v in lst:
                    fh.write(json.dumps(to_jsonable({"mech": mech, "case_id": case.get("id"), "msg": v.get("msg"), "data": v.get("data")})) + "\n")
    for mech, lst in unlisted.items():
        path = None
        for n, (case, v) in enumerate(lst[:3]):
            if a.replay:
                path = a.replay
                break
            safe = "".join(ch if ch.isalnum() or ch in "-_." else "_" for ch in mech)[:80]
            p = os.path.join(rdir, "%s-%d.json" % (safe, n))
            with open(p, "w") as fh:
                json.dump(to_jsonable({"property": prop, "tier": tier, "seed": seed, "case": case, "violation": v}), fh, indent=1)
            path = path or p
        lines.append("VIOLATION property=%s replay=%s mechanism=%s count=%d first=%s" % (
            prop, path, mech, len(lst), json.dumps(to_jsonable(lst[0][1].get("msg", "")))[:300]))
    for fid, (e, cnt, first) in listed.items():
        lines.append("KNOWN-FINDING: property=%s %s [%s; seen %d times this run]" % (prop, e.get("what", fid), fid, cnt))
    wall = time.time() - t0
    assumptions = list(getattr(mod, "ASSUMPTIONS", []))
    if not a.replay:
        evidence.write(prop, tier, seed, coverage, wall, nviol, assumptions,
                       extra={"verdict": "violated" if unlisted else ("inconclusive" if inconclusive else "held_on_observed"),
                              "repo": env.REPO})
    for ln in lines:
        print(ln)
    print("%s tier=%s seed=%d cases=%d evaluations=%s distinct_nontrivial=%s wall=%.1fs" % (
        prop, tier, seed, len(cases), coverage.get("evaluations"), coverage.get("distinct_nontrivial"), wall))
    if unlisted:
        sys.exit(1)
    if inconclusive:
        print("INCONCLUSIVE property=%s reason=%s" % (prop, inconclusive))
        sys.exit(2)
    sys.exit(0)


if __name__ == "__main__":
    main()
