"""Worker: python worker.py shard.json out.jsonl — runs the cases of one shard
against the repository with the property module's run_case, one JSON record per
line (flushed after each case so a watchdog kill loses only the running case)."""
import contextlib
import importlib
import io
import json
import os
import sys
import time
import traceback

sys.path.insert(0, os.path.dirname(os.path.dirname(os.path.abspath(__file__))))
from vlib import env  # noqa: E402
from vlib.jsonutil import to_jsonable  # noqa: E402


def main():
    shard = json.load(open(sys.argv[1]))
    out = open(sys.argv[2], "w")
    mod = importlib.import_module("props." + shard["prop"].lower())
    env.boot(model=getattr(mod, "NEEDS_MODEL", True))
    if hasattr(mod, "worker_init"):
        mod.worker_init()
    for case in shard["cases"]:
        t0 = time.time()
        buf = io.StringIO()
        try:
            with contextlib.redirect_stdout(buf):
                rec = mod.run_case(case, shard["tier"])
            rec.setdefault("status", "ok")
        except BaseException as e:  # noqa: BLE001 - a harness error is inconclusive, never a verdict
            if isinstance(e, KeyboardInterrupt):
                raise
            rec = {"status": "inconclusive", "reason": "harness error: %r" % (e,),
                   "trace": traceback.format_exc()[-3000:], "viol": [], "obs": {}}
        rec.setdefault("viol", [])
        rec.setdefault("obs", {})
        rec["case_id"] = case.get("id")
        rec["wall_s"] = round(time.time() - t0, 3)
        w = env.repo_writes()
        if w:
            rec["repo_writes"] = w[:5]
        out.write(json.dumps(to_jsonable(rec)) + "\n")
        out.flush()
    out.close()


if __name__ == "__main__":
    main()
