"""Bootstrap shared by every check: locate the repository under monitoring, make
it importable, chdir into it (the model finds its data through git.Repo(".")),
redirect the files the model writes into a scratch directory outside /repo and
/verif, and install an audit hook that records file writes.

Nothing here caches anything: every worker process re-imports /repo's sources
from its current working tree."""
import atexit
import os
import shutil
import sys
import tempfile

VERIF_ROOT = os.path.dirname(os.path.dirname(os.path.abspath(__file__)))
REPO = os.path.abspath(os.environ.get("ALLFED_VERIF_REPO", "/repo"))
GUARD = "ALLFED_INTEGRATED_MODEL_VERIF"
PYTHON = "/venv/bin/python"

_state = {"scratch": None, "writes": [], "reads_outside_data": [], "booted": False}


def seed():
    try:
        return int(os.environ.get("VERIF_SEED", "0"))
    except ValueError:
        return 0


def scratch_dir():
    if _state["scratch"] is None:
        d = tempfile.mkdtemp(prefix="allfed_verif_")
        os.makedirs(os.path.join(d, "results", "large_reports"), exist_ok=True)
        # the modules that write result files build their paths from a module-level repo_root; boot() points that
        # at this directory, so what they read through it (the country table, the scenario files) is linked in
        for sub in ("data", "scenarios"):
            os.symlink(os.path.join(REPO, sub), os.path.join(d, sub))
        _state["scratch"] = d
        atexit.register(shutil.rmtree, d, True)
    return _state["scratch"]


def _audit(event, args):
    if event != "open":
        return
    try:
        path, mode = args[0], args[1]
        if not isinstance(path, str):
            return
        if mode and any(c in mode for c in "wax+"):
            ap = os.path.abspath(path)
            if ap.startswith(REPO + os.sep) and "__pycache__" not in ap:
                _state["writes"].append(ap)
    except Exception:
        pass


def boot(model=True):
    """Make the repository importable.  model=True also redirects result files."""
    if _state["booted"]:
        return
    os.environ.setdefault("MPLBACKEND", "Agg")
    os.environ[GUARD] = "1"
    os.chdir(REPO)
    if REPO in sys.path:
        sys.path.remove(REPO)
    sys.path.insert(0, REPO)
    if VERIF_ROOT not in sys.path:
        sys.path.insert(1, VERIF_ROOT)
    sys.dont_write_bytecode = True
    sys.addaudithook(_audit)
    _state["booted"] = True
    if model:
        import warnings

        warnings.filterwarnings("ignore")
        d = scratch_dir()
        import src.optimizer.interpret_results as ir
        import src.scenarios.run_scenario as rs

        ir.repo_root = d
        rs.repo_root = d
        # figures, the pptx report and the web-interface csv files go to the scratch directory too: worker processes
        # must not share file names (a half-written png read by another process is a harness race, not an observation)
        for name in ("src.scenarios.run_model_no_trade", "src.utilities.plotter", "src.utilities.make_powerpoint"):
            try:
                import importlib

                importlib.import_module(name).repo_root = d
            except Exception:
                pass
        src_file = os.path.abspath(sys.modules["src.scenarios.run_scenario"].__file__)
        assert src_file.startswith(REPO + os.sep), (src_file, REPO)


def repo_writes():
    return list(_state["writes"])
