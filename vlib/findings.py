"""Known-findings classifier.  known_findings.json is committed and never
written at run time.  An entry matches a violation when the property and the
mechanism label agree and every key of its optional `where` clause matches the
violation's data (value equal, or contained in the listed alternatives).
Only `open` entries suppress; `fixed` entries are documentation."""
import json
import os

from vlib import env

PATH = os.path.join(env.VERIF_ROOT, "known_findings.json")


def load():
    if not os.path.exists(PATH):
        return []
    with open(PATH) as fh:
        return json.load(fh).get("findings", [])


def _match(entry, prop, viol):
    if entry.get("property") != prop or entry.get("status") != "open":
        return False
    if entry.get("mechanism") != viol.get("mech"):
        return False
    data = viol.get("data", {}) or {}
    for k, want in (entry.get("where") or {}).items():
        have = data.get(k)
        if isinstance(want, list):
            if have not in want:
                return False
        elif have != want:
            return False
    return True


def classify(prop, viol, entries=None):
    entries = load() if entries is None else entries
    for e in entries:
        if _match(e, prop, viol):
            return e
    return None
