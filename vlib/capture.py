"""Capture layer: wrappers installed from the harness (no change to /repo) that
record call and return events of the pipeline's boundary functions into one
Trace per (country, scenario) run.  Every wrapper counts its evaluations."""
import contextlib
import copy
import io
import os
import sys
import time

import numpy as np

from vlib import env

COUNTERS = {}
CUR = None
_installed = False


class LP:
    """One optimisation round as observed at the Optimizer boundary."""

    def __init__(self, kind, opt, mhc, ret):
        self.kind = kind  # "to_humans" | "to_animals"
        self.consts = opt.consts_for_optimizer
        self.time_consts = opt.time_consts
        self.mhc = mhc
        self.model, self.variables, self.maximize_constraints, self.objective = ret
        self.N = self.consts["NMONTHS"]
        self.interp = None
        self.title = None

    def val(self, name):
        out = np.zeros(self.N)
        for m, x in enumerate(self.variables[name]):
            if hasattr(x, "varValue"):
                v = x.varValue
                out[m] = np.nan if v is None else float(v)
            else:
                out[m] = float(x)
        return out

    def has(self, name):
        return hasattr(self.variables[name][0], "varValue")


class Trace:
    def __init__(self, case):
        self.case = case
        self.lps = []
        self.rounds = []  # (title, optimization_type, interp, lp)
        self.herds = []  # (kwargs/args summary, CalculateFeedAndMeat instance)
        self.first = None  # (args, ret) of compute_parameters_first_round
        self.second = None
        self.third = None
        self.setdep = []  # (options before, options after, returned constants)
        self.error = None
        self.error_type = None
        self.result = None
        self.wall = None
        self.scratch = None


def _count(name):
    COUNTERS[name] = COUNTERS.get(name, 0) + 1


def install():
    """Wrap the observation points (idempotent)."""
    global _installed
    if _installed:
        return
    _installed = True
    from src.optimizer.optimizer import Optimizer
    from src.optimizer.parameters import Parameters
    from src.scenarios.run_scenario import ScenarioRunner
    from src.food_system import animal_populations as ap
    import src.optimizer.optimizer as optmod

    # the model dumps model.json into the cwd (= repo root) on solver failure;
    # send that file to the scratch directory instead
    def _open(path, *a, **k):
        if isinstance(path, str) and os.path.basename(path) == "model.json":
            path = os.path.join(env.scratch_dir(), "model.json")
        return open(path, *a, **k)

    optmod.open = _open

    o1 = Optimizer.optimize_to_humans
    o2 = Optimizer.optimize_feed_to_animals

    def w1(self, consts_for_optimizer, time_consts):
        _count("Optimizer.optimize_to_humans")
        r = o1(self, consts_for_optimizer, time_consts)
        if CUR is not None:
            CUR.lps.append(LP("to_humans", self, None, r))
        return r

    def w2(self, consts_for_optimizer, time_consts, min_human_food_consumption):
        _count("Optimizer.optimize_feed_to_animals")
        r = o2(self, consts_for_optimizer, time_consts, min_human_food_consumption)
        if CUR is not None:
            CUR.lps.append(LP("to_animals", self, min_human_food_consumption, r))
        return r

    Optimizer.optimize_to_humans = w1
    Optimizer.optimize_feed_to_animals = w2

    ro = ScenarioRunner.run_optimizer

    def wro(self, consts_for_optimizer, time_consts, optimization_type=None,
            min_human_food_consumption=None, title="Untitled"):
        _count("ScenarioRunner.run_optimizer")
        n0 = len(CUR.lps) if CUR is not None else 0
        given_t = given_c = None
        if CUR is not None:
            # the supplies as they are handed over, before the optimiser object (whose constructor receives the same
            # dictionaries) has seen them: the ledgers are audited against these
            try:
                given_t, given_c = copy.deepcopy(time_consts), copy.deepcopy(consts_for_optimizer)
            except Exception:
                given_t = given_c = None
        r = ro(self, consts_for_optimizer, time_consts, optimization_type=optimization_type,
               min_human_food_consumption=min_human_food_consumption, title=title)
        if CUR is not None:
            lp = CUR.lps[n0] if len(CUR.lps) > n0 else None
            if lp is not None:
                lp.interp = r
                lp.title = title
                if given_t is not None:
                    lp.inputs_changed = changed_inputs(given_c, given_t, lp.consts, lp.time_consts)
                    lp.consts_used, lp.time_consts_used = lp.consts, lp.time_consts
                    lp.consts, lp.time_consts = given_c, given_t
            CUR.rounds.append((title, optimization_type, r, lp))
        return r

    ScenarioRunner.run_optimizer = wro

    sd = ScenarioRunner.set_depending_on_option

    def wsd(self, scenario_option, country_data=None):
        _count("ScenarioRunner.set_depending_on_option")
        before = copy.deepcopy(scenario_option)
        r = sd(self, scenario_option, country_data=country_data)
        if CUR is not None:
            CUR.setdep.append((before, copy.deepcopy(scenario_option), r))
        return r

    ScenarioRunner.set_depending_on_option = wsd

    p1 = Parameters.compute_parameters_first_round
    p2 = Parameters.compute_parameters_second_round
    p3 = Parameters.compute_parameters_third_round

    def wp1(self, *a, **k):
        _count("Parameters.compute_parameters_first_round")
        r = p1(self, *a, **k)
        if CUR is not None:
            CUR.first = (a, r)
        return r

    def wp2(self, *a, **k):
        _count("Parameters.compute_parameters_second_round")
        r = p2(self, *a, **k)
        if CUR is not None:
            CUR.second = (a, r)
        return r

    def wp3(self, *a, **k):
        _count("Parameters.compute_parameters_third_round")
        # snapshot the feed/biofuel the round-2 interpreter carries *at hand-off time*
        snap = None
        try:
            ir2 = a[6]
            snap = (np.array(ir2.feed_sum_kcals_equivalent.kcals, float).copy()
                    if hasattr(ir2, "feed_sum_kcals_equivalent") else None,
                    np.array(ir2.biofuels_sum_kcals_equivalent.kcals, float).copy()
                    if hasattr(ir2, "biofuels_sum_kcals_equivalent") else None)
        except Exception:
            pass
        r = p3(self, *a, **k)
        if CUR is not None:
            CUR.third = (a, r, snap)
        return r

    Parameters.compute_parameters_first_round = wp1
    Parameters.compute_parameters_second_round = wp2
    Parameters.compute_parameters_third_round = wp3

    hi = ap.CalculateFeedAndMeat.__init__

    def whi(self, *a, **k):
        _count("CalculateFeedAndMeat.__init__")
        feed_in = k.get("available_feed", None)
        grass_in = k.get("available_grass", None)
        snap = {}
        for nm, obj in (("feed", feed_in), ("grass", grass_in)):
            try:
                snap[nm] = np.array(obj.kcals, float).copy()
            except Exception:
                snap[nm] = None
        snap["args"] = a
        snap["kwargs"] = k
        hi(self, *a, **k)
        if CUR is not None:
            CUR.herds.append((snap, self))

    ap.CalculateFeedAndMeat.__init__ = whi


def run_pipeline(case, share_opts=False, runner=None):
    """Run one (country, option vector) through the real three-round pipeline (on the given ScenarioRunnerNoTrade object, or a new one)."""
    global CUR
    install()
    from src.scenarios.run_model_no_trade import ScenarioRunnerNoTrade
    from src.scenarios.run_scenario import ScenarioRunner

    tr = Trace(case)
    tr.scratch = env.scratch_dir()
    CUR = tr
    opts = case["opts"] if share_opts else copy.deepcopy(case["opts"])
    title = case.get("title") or ("t_" + case["iso"])
    tr.title = title
    t0 = time.time()
    try:
        if case["iso"] == "WOR":
            import pandas as pd

            r = ScenarioRunner()
            c, t, l = r.set_depending_on_option(opts)
            tab = pd.read_csv(os.path.join(env.REPO, "data", "no_food_trade", "computer_readable_combined.csv"))
            row = tab.iloc[-1]
            res = r.run_and_analyze_scenario(c, t, l, False, False, "_world", row, False, "world", "WOR", title=title)
            tr.result = res
        else:
            out = (runner if runner is not None else ScenarioRunnerNoTrade()).run_model_no_trade(
                title=title, create_pptx_with_all_countries=bool(case.get("plots")), show_country_figures=False,
                show_map_figures=False, add_map_slide_to_pptx=False, scenario_option=opts,
                countries_list=[case["iso"]], return_results=True, save_all_results=bool(case.get("save_all")))

            tr.aggregate = out[1:3]
            tr.returned_countries = sorted(out[3].keys())
            from vlib import workload as _wl

            own = {r["iso3"]: r["country"] for r in _wl.country_table()}.get(case["iso"])
            vals = [out[3][own]] if own in out[3] else list(out[3].values())
            if case.get("save_all"):
                tr.saved_files = saved_files(tr.scratch, title, own)
            tr.result = vals[0] if vals else None
            if not vals:
                tr.error = "country not run (no result returned)"
                tr.error_type = "NoResult"
    except BaseException as e:  # noqa: BLE001 - an observation, not a harness failure
        if isinstance(e, KeyboardInterrupt):
            raise
        tr.error = repr(e)[:300]
        tr.error_type = type(e).__name__
        import traceback

        tb = traceback.extract_tb(e.__traceback__)
        tr.error_where = ["%s:%d:%s" % (os.path.basename(f.filename), f.lineno, f.name) for f in tb[-4:]]
    finally:
        CUR = None
    try:
        import matplotlib.pyplot as plt

        plt.close("all")
    except Exception:
        pass
    tr.opts_after = opts
    tr.wall = time.time() - t0
    return tr


def _num(x):
    """numeric view of a supply entry (array, list, Food or object holding Foods) -> dict name -> ndarray"""
    out = {}
    if hasattr(x, "kcals") and hasattr(x, "fat"):
        out[""] = np.atleast_1d(np.asarray(x.kcals, float))
    elif isinstance(x, (list, tuple, np.ndarray, int, float, np.floating, np.integer)) and not isinstance(x, bool):
        try:
            out[""] = np.atleast_1d(np.asarray(x, float))
        except Exception:
            pass
    elif hasattr(x, "__dict__") and not callable(x):
        for k, v in list(vars(x).items())[:40]:
            if hasattr(v, "kcals") and hasattr(v, "fat"):
                out["." + k] = np.atleast_1d(np.asarray(v.kcals, float))
    return out


def changed_inputs(c0, t0, c1, t1):
    """names of the numeric inputs that differ between what was handed to the optimiser and what it holds afterwards"""
    ch = []
    for label, a, b in (("time_consts", t0, t1), ("consts", c0, c1)):
        for k in a:
            if k == "inputs" or k not in b:
                continue
            na, nb = _num(a[k]), _num(b[k])
            for sub in na:
                if sub in nb and (na[sub].shape != nb[sub].shape or not np.array_equal(na[sub], nb[sub], equal_nan=True)):
                    ch.append("%s[%r]%s" % (label, k, sub))
    return ch


def saved_files(scratch, title, country=None):
    """{file name without the title: sha256 of its bytes} for the csv files a run wrote under results/ with save_all_results
    (optionally only one country's files of a multi-country call)"""
    import hashlib

    out = {}
    d = os.path.join(scratch, "results")
    if not os.path.isdir(d):
        return out
    pre = title + "_"
    for fn in sorted(os.listdir(d)):
        if not fn.startswith(pre) or not fn.endswith(".csv"):
            continue
        rest = fn[len(pre):]
        if country is not None and not rest.startswith(country + "_"):
            continue
        with open(os.path.join(d, fn), "rb") as fh:
            out[rest] = hashlib.sha256(fh.read()).hexdigest()[:16]
    return out


def failure_class(tr):
    if tr.error is None:
        return None
    e = tr.error
    if "OPTIMIZATION FAILED" in e:
        return "optimization_failed"
    if tr.error_type == "SystemExit":
        return "sys_exit"
    if tr.error_type == "AssertionError":
        w = getattr(tr, "error_where", [""])[-1]
        return "assertion:" + w.split(":")[0] + ":" + w.split(":")[-1]
    return tr.error_type
