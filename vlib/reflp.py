"""C02 oracle: an independently formulated LP for one optimisation round, built in
sparse-matrix form from consts/time_consts only (following the property statement
and scenarios/README.md, not the PuLP code) and solved with HiGHS.

ref_lp(kind, c, t, mhc, physical_meat=True) -> dict(status, z, tight={family: bool}, n_rows, n_vars)
physical_meat=False reproduces the weaker meat cap (total + per-month running total)
and is used only to *classify* a disagreement, never to decide one."""
import numpy as np
from scipy.optimize import linprog
from scipy.sparse import coo_matrix


def _s0(c):
    v = c["stored_food"].initial_available.kcals
    return float(np.ravel(v)[0]) if np.ndim(v) else float(v)


class _Rows:
    def __init__(self):
        self.i, self.j, self.v, self.rhs, self.fam = [], [], [], [], []

    def add(self, d, r, fam):
        k = len(self.rhs)
        for col, val in d.items():
            if val != 0:
                self.i.append(k)
                self.j.append(col)
                self.v.append(val)
        self.rhs.append(float(r))
        self.fam.append(fam)

    def mat(self, nv):
        if not self.rhs:
            return None, None
        return coo_matrix((self.v, (self.i, self.j)), shape=(len(self.rhs), nv)).tocsr(), np.array(self.rhs)


def ref_lp(kind, c, t, mhc=None, physical_meat=True, time_limit=60.0):
    N = c["NMONTHS"]
    names = []

    def add(n):
        names.extend((n, m) for m in range(N))

    SF, OG, ME = c["ADD_STORED_FOOD"], c["ADD_OUTDOOR_GROWING"], c["ADD_MEAT"]
    SC, CS, SW = c["ADD_METHANE_SCP"], c["ADD_CELLULOSIC_SUGAR"], c["ADD_SEAWEED"]
    for on, vs in ((SF, ("sf_h", "sf_f", "sf_b")), (OG, ("cr_h", "cr_f", "cr_b")), (ME, ("me",)),
                   (SC, ("sc_h", "sc_f", "sc_b")), (CS, ("cs_h", "cs_f", "cs_b")),
                   (SW, ("sw_W", "sw_h", "sw_f", "sw_b", "sw_A"))):
        if on:
            for x in vs:
                add(x)
    idx = {k: i for i, k in enumerate(names)}
    nv = len(names)
    human = kind == "to_humans"
    zi = None
    if human:
        zi = nv
        nv += 1
    UB, EQ = _Rows(), _Rows()

    def V(n, m):
        return idx[(n, m)]

    def w(key):
        # the scenario's input retail waste (one value for all foods), not the per-food copies made for the optimiser
        return 1 - c["inputs"]["WASTE_RETAIL"] / 100.0

    # population and daily need come from the scenario inputs, not from the constants derived for the optimiser
    POP_IN = float(c["inputs"]["POP"])
    KD_IN = float(c["inputs"]["NUTRITION"]["KCALS_DAILY"])
    SK, BKN = c["SEAWEED_KCALS"], POP_IN * KD_IN * 30.0 / 1e9
    store = bool(c["STORE_FOOD_BETWEEN_YEARS"])
    if SF:
        S0, ws = _s0(c), w("STORED_FOOD_WASTE_RETAIL")
        d = {}
        for m in range(N):
            d[V("sf_h", m)] = 1 / ws
            d[V("sf_f", m)] = 1
            d[V("sf_b", m)] = 1
            if not store and m > 12:
                for n in ("sf_h", "sf_f", "sf_b"):
                    EQ.add({V(n, m): 1}, 0, "stored_food_first_year_only")
            if m == N - 1 and human and store:
                EQ.add(dict(d), S0, "stored_food_exhausted")
            else:
                UB.add(dict(d), S0, "stored_food_stock")
    if OG:
        wc = w("CROP_WASTE_RETAIL")
        cp = np.cumsum(np.asarray(t["outdoor_crops"].production.kcals, float))
        d = {}
        for m in range(N):
            d[V("cr_h", m)] = 1 / wc
            d[V("cr_f", m)] = 1
            d[V("cr_b", m)] = 1
            if m == N - 1 and human:
                EQ.add(dict(d), cp[m], "crops_exhausted")
            else:
                UB.add(dict(d), cp[m], "crops_harvested_so_far")
    if ME:
        wm = w("MEAT_WASTE_RETAIL")
        sl = np.asarray(t["each_month_meat_slaughtered"].kcals, float)
        run = np.asarray(t["max_consumed_culled_kcals_each_month"], float)
        if store:
            if physical_meat:
                cs_ = np.cumsum(sl)
                d = {}
                for m in range(N):
                    d[V("me", m)] = 1 / wm
                    UB.add(dict(d), cs_[m], "meat_slaughtered_so_far")
            else:
                UB.add({V("me", k): 1 / wm for k in range(N)}, c["meat_summed_consumption"], "meat_total")
                for m in range(N):
                    UB.add({V("me", m): 1 / wm}, run[m], "meat_month_running_total")
        else:
            for m in range(N):
                UB.add({V("me", m): 1 / wm}, sl[m], "meat_month_no_storage")
    if SC:
        for m in range(N):
            UB.add({V("sc_h", m): 1 / w("SCP_RETAIL_WASTE"), V("sc_f", m): 1, V("sc_b", m): 1}, t["methane_scp"].kcals[m], "scp_month")
    if CS:
        for m in range(N):
            UB.add({V("cs_h", m): 1 / w("CELL_SUGAR_RETAIL_WASTE"), V("cs_f", m): 1, V("cs_b", m): 1}, t["cellulosic_sugar"].kcals[m], "cell_sugar_month")
    if SW:
        I0, A0 = c["INITIAL_SEAWEED"], c["INITIAL_BUILT_SEAWEED_AREA"]
        dmax, dmin, hl = c["MAXIMUM_DENSITY"], c["MINIMUM_DENSITY"], c["HARVEST_LOSS"] / 100.0
        wsw = w("SEAWEED_WASTE_RETAIL")
        for m in range(N):
            ba = t["built_area"][m]
            UB.add({V("sw_W", m): -1}, -I0, "seaweed_above_start")
            UB.add({V("sw_W", m): 1}, dmax * ba, "seaweed_density")
            UB.add({V("sw_A", m): -1}, -A0, "seaweed_area_lower")
            UB.add({V("sw_A", m): 1}, ba, "seaweed_area_built")
            if m == 0:
                EQ.add({V("sw_W", 0): 1}, I0, "seaweed_init")
                EQ.add({V("sw_A", 0): 1}, A0, "seaweed_init")
                for n in ("sw_h", "sw_f", "sw_b"):
                    EQ.add({V(n, 0): 1}, 0, "seaweed_init")
            else:
                g = t["growth_rates_monthly"][m] / 100.0
                EQ.add({V("sw_W", m): 1, V("sw_W", m - 1): -(1 + g), V("sw_h", m): 1 / wsw, V("sw_f", m): 1,
                        V("sw_b", m): 1, V("sw_A", m): dmin * hl, V("sw_A", m - 1): -dmin * hl}, 0, "seaweed_ledger")

    def feedrow(m, tag):
        d = {}
        if SF:
            d[V("sf_" + tag, m)] = 1
        if OG:
            d[V("cr_" + tag, m)] = 1
        if SW:
            d[V("sw_" + tag, m)] = SK
        if CS:
            d[V("cs_" + tag, m)] = 1
        if SC:
            d[V("sc_" + tag, m)] = 1
        return d

    anyfeed = SF or OG or SW or CS or SC
    inp = c["inputs"]
    resil = ((SW, "sw", SK, "SEAWEED"), (SC, "sc", 1, "METHANE_SCP"), (CS, "cs", 1, "CELLULOSIC_SUGAR"))
    for m in range(N):
        if anyfeed:
            if human:
                EQ.add(feedrow(m, "f"), t["feed"].kcals[m], "feed_equals_charge")
                EQ.add(feedrow(m, "b"), t["biofuel"].kcals[m], "biofuel_equals_charge")
            else:
                UB.add(feedrow(m, "f"), t["max_feed_that_could_be_used"].kcals[m], "feed_ceiling")
                UB.add(feedrow(m, "b"), t["max_biofuel_that_could_be_used"].kcals[m], "biofuel_ceiling")
                if m > 0:
                    for tag, famn in (("f", "feed_non_increasing"), ("b", "biofuel_non_increasing")):
                        d = feedrow(m, tag)
                        for k, v in feedrow(m - 1, tag).items():
                            d[k] = d.get(k, 0) - v
                        UB.add(d, 0, famn)
        for on, pre, ratio, nm in resil:
            if not on:
                continue
            UB.add({V(pre + "_f", m): ratio}, inp["MAX_%s_AS_PERCENT_KCALS_FEED" % nm] / 100 * t["feed"].kcals[m], "share_cap_feed")
            UB.add({V(pre + "_b", m): ratio}, inp["MAX_%s_AS_PERCENT_KCALS_BIOFUEL" % nm] / 100 * t["biofuel"].kcals[m], "share_cap_biofuel")
            if human:
                fr = inp["MAX_%s_AS_PERCENT_KCALS_HUMANS" % nm] / 100
                UB.add({V(pre + "_h", m): ratio}, fr * BKN, "intake_cap_initial_population")
        if human:
            const = t["milk_kcals"][m] + t["greenhouse_crops"].kcals[m] + t["fish"].to_humans.kcals[m]
            cons = {}
            if SF:
                cons[V("sf_h", m)] = 1
            if OG:
                cons[V("cr_h", m)] = 1
            if SW:
                cons[V("sw_h", m)] = SK
            if ME:
                cons[V("me", m)] = 1
            if CS:
                cons[V("cs_h", m)] = 1
            if SC:
                cons[V("sc_h", m)] = 1
            d = {zi: 1}
            for k, v in cons.items():
                d[k] = -100 / BKN * v
            UB.add(d, 100 / BKN * const, "worst_month")
            for on, pre, ratio, nm in resil:
                if not on:
                    continue
                fr = inp["MAX_%s_AS_PERCENT_KCALS_HUMANS" % nm] / 100
                d = {V(pre + "_h", m): ratio}
                for k, v in cons.items():
                    d[k] = d.get(k, 0) - fr * v
                UB.add(d, fr * const, "intake_cap_actual_intake")
        else:
            band = 1e-4 if POP_IN < 1e7 else 1e-5
            for on, var, ratio, key in ((OG, "cr_h", 1, "outdoor_crops"), (SF, "sf_h", 1, "stored_food"), (ME, "me", 1, "meat"),
                                        (SC, "sc_h", 1, "methane_scp"), (CS, "cs_h", 1, "cellulosic_sugar"), (SW, "sw_h", SK, "seaweed")):
                if not on:
                    continue
                v = mhc[key].in_units_bil_kcals_thou_tons_thou_tons_per_month()[m].kcals
                UB.add({V(var, m): ratio}, (1 + band) * v, "human_pin_upper")
                UB.add({V(var, m): -ratio}, -(1 - band) * v, "human_pin_lower")
    cost = np.zeros(nv)
    if human:
        cost[zi] = -1
    else:
        for m in range(N):
            for k, v in feedrow(m, "f").items():
                cost[k] -= 2 / 3 * v
            for k, v in feedrow(m, "b").items():
                cost[k] -= 1 / 3 * v
    Aub, bub = UB.mat(nv)
    Aeq, beq = EQ.mat(nv)
    res = linprog(cost, A_ub=Aub, b_ub=bub, A_eq=Aeq, b_eq=beq, bounds=(0, None), method="highs",
                  options={"time_limit": time_limit, "presolve": True, "primal_feasibility_tolerance": 1e-10, "dual_feasibility_tolerance": 1e-10})
    loose = False
    if res.status != 0:
        # HiGHS could not reach the tight tolerances: fall back to its defaults (1e-7) and say so
        res = linprog(cost, A_ub=Aub, b_ub=bub, A_eq=Aeq, b_eq=beq, bounds=(0, None), method="highs", options={"time_limit": time_limit, "presolve": True})
        loose = True
    out = {"status": int(res.status), "z": (-float(res.fun) if res.status == 0 else None),
           "n_rows": len(UB.rhs) + len(EQ.rhs), "n_vars": nv, "tight": {}, "message": str(res.message)[:80], "loose_tolerances": loose}
    if res.status == 0 and Aub is not None:
        slack = bub - Aub.dot(res.x)
        tight = slack <= 1e-7 * np.maximum(1.0, np.abs(bub))
        fams = {}
        for fm, tg in zip(UB.fam, tight):
            fams[fm] = fams.get(fm, False) or bool(tg)
        for fm in set(EQ.fam):
            fams[fm] = True
        out["tight"] = fams
    return out
