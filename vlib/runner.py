"""Shard runner: every shard of cases runs in its own subprocess of the
repository's interpreter (never multiprocessing.Pool), with a generous wall-clock
watchdog whose firing makes the shard's unfinished cases *inconclusive*."""
import json
import os
import subprocess
import sys
import tempfile
import time

from vlib import env

NPROC = int(os.environ.get("VERIF_NPROC", "16"))


def run_cases(prop, cases, tier, watchdog_s=1800, nshards=None, extra_env=None):
    """Returns (records, infra) ; records[i] is a dict for cases[i] (or an
    {'status': 'inconclusive'} stub)."""
    n = len(cases)
    if n == 0:
        return [], {"shards": 0}
    nshards = nshards or min(NPROC, n)
    # interleave so that every shard gets a mix of cheap and expensive cases
    shards = [list(range(k, n, nshards)) for k in range(nshards)]
    tmp = tempfile.mkdtemp(prefix="allfed_verif_run_")
    procs = []
    envv = dict(os.environ)
    envv["PYTHONHASHSEED"] = "0"
    envv["PYTHONPATH"] = env.REPO + os.pathsep + env.VERIF_ROOT
    envv["MPLBACKEND"] = "Agg"
    envv[env.GUARD] = "1"
    envv["OMP_NUM_THREADS"] = "1"
    envv["OPENBLAS_NUM_THREADS"] = "1"
    envv["MKL_NUM_THREADS"] = "1"
    envv["PYTHONDONTWRITEBYTECODE"] = "1"
    envv["VERIF_SEED"] = str(env.seed())
    envv["VERIF_TIER"] = tier
    if extra_env:
        envv.update(extra_env)
    t0 = time.time()
    for k, idx in enumerate(shards):
        sp = os.path.join(tmp, "shard%d.json" % k)
        op = os.path.join(tmp, "out%d.jsonl" % k)
        with open(sp, "w") as fh:
            json.dump({"prop": prop, "tier": tier, "cases": [cases[i] for i in idx]}, fh)
        lp = open(os.path.join(tmp, "log%d.txt" % k), "w")
        p = subprocess.Popen(
            [env.PYTHON, os.path.join(env.VERIF_ROOT, "vlib", "worker.py"), sp, op],
            stdout=lp, stderr=subprocess.STDOUT, env=envv, cwd=env.REPO,
        )
        procs.append((p, idx, op, lp, k))
    records = [None] * n
    infra = {"shards": nshards, "watchdog_fired": 0, "worker_crashes": 0, "worker_logs": []}
    deadline = t0 + watchdog_s
    for p, idx, op, lp, k in procs:
        try:
            p.wait(timeout=max(1, deadline - time.time()))
        except subprocess.TimeoutExpired:
            p.kill()
            p.wait()
            infra["watchdog_fired"] += 1
        lp.close()
        got = []
        if os.path.exists(op):
            with open(op) as fh:
                for line in fh:
                    line = line.strip()
                    if line:
                        try:
                            got.append(json.loads(line))
                        except ValueError:
                            pass
        for j, rec in enumerate(got[: len(idx)]):
            records[idx[j]] = rec
        if len(got) < len(idx):
            if p.returncode not in (0, None) and p.returncode != -9:
                infra["worker_crashes"] += 1
            try:
                tail = open(os.path.join(tmp, "log%d.txt" % k)).read()[-1500:]
            except Exception:
                tail = ""
            infra["worker_logs"].append({"shard": k, "rc": p.returncode, "tail": tail})
    for i in range(n):
        if records[i] is None:
            records[i] = {"status": "inconclusive", "reason": "worker did not report (watchdog/crash)",
                          "viol": [], "obs": {}}
    import shutil

    shutil.rmtree(tmp, ignore_errors=True)
    infra["wall_s"] = round(time.time() - t0, 2)
    return records, infra
