"""Solve a PuLP model (as built by the repository's own code) with scipy's HiGHS,
without going through CBC.  Used to separate 'the formulation is wrong' from
'CBC returned a slightly sub-optimal point'."""
import numpy as np
from scipy.optimize import linprog
from scipy.sparse import coo_matrix


def solve(model, time_limit=60.0):
    vs = model.variables()
    idx = {v.name: i for i, v in enumerate(vs)}
    n = len(vs)
    cost = np.zeros(n)
    for v, coef in model.objective.items():
        cost[idx[v.name]] = coef
    sense = model.sense  # 1 = minimise, -1 = maximise
    rows_ub, rows_eq = ([], [], []), ([], [], [])
    b_ub, b_eq = [], []
    for name, con in model.constraints.items():
        rhs = -con.constant
        items = [(idx[v.name], coef) for v, coef in con.items()]
        if con.sense == 0:
            k = len(b_eq)
            for j, coef in items:
                rows_eq[0].append(k)
                rows_eq[1].append(j)
                rows_eq[2].append(coef)
            b_eq.append(rhs)
        else:
            sgn = 1.0 if con.sense == -1 else -1.0  # ">=" rows are negated into "<="
            k = len(b_ub)
            for j, coef in items:
                rows_ub[0].append(k)
                rows_ub[1].append(j)
                rows_ub[2].append(sgn * coef)
            b_ub.append(sgn * rhs)
    bounds = [(v.lowBound, v.upBound) for v in vs]
    A_ub = coo_matrix((rows_ub[2], (rows_ub[0], rows_ub[1])), shape=(len(b_ub), n)).tocsr() if b_ub else None
    A_eq = coo_matrix((rows_eq[2], (rows_eq[0], rows_eq[1])), shape=(len(b_eq), n)).tocsr() if b_eq else None
    res = linprog(cost * (1 if sense == 1 else -1), A_ub=A_ub, b_ub=b_ub or None, A_eq=A_eq, b_eq=b_eq or None, bounds=bounds, method="highs",
                  options={"time_limit": time_limit, "primal_feasibility_tolerance": 1e-10, "dual_feasibility_tolerance": 1e-10})
    if res.status != 0:
        res = linprog(cost * (1 if sense == 1 else -1), A_ub=A_ub, b_ub=b_ub or None, A_eq=A_eq, b_eq=b_eq or None, bounds=bounds, method="highs",
                      options={"time_limit": time_limit})
    if res.status != 0:
        return None, int(res.status)
    return float(res.fun) * (1 if sense == 1 else -1), 0


def first_stage_optimum(c, t, kind="to_humans", mhc=None):
    """Optimum of the first-stage model of a round exactly as the repository builds it (no CBC involved)."""
    from pulp import LpMaximize, LpProblem

    from src.optimizer.optimizer import Optimizer

    opt = Optimizer(c, t)
    if kind == "to_animals":
        opt.time_consts["min_human_food_consumption"] = mhc
        model = LpProblem(name="optimization_feed", sense=LpMaximize)
    else:
        model = LpProblem(name="optimization_nutrition", sense=LpMaximize)
    variables = opt.initial_variables.copy()
    model, variables, _ = opt.add_variables_and_constraints_to_model(model, variables, c, optimization_type=kind)
    return solve(model)
