"""C01 oracle: an independent month-by-month ledger recomputed from the supplies.
Nothing of the model's own constraint objects is consulted; only the values of
the allocation variables (after the last solve) and consts / time_consts."""
import numpy as np

REL = 2e-6
ABS = 1e-5


def _w(c, key):
    """1 - retail waste.  The waste share is the *input* WASTE_RETAIL of the scenario (one value for all foods); the
    per-food copies the parameter code hands to the optimiser are deliberately not consulted."""
    return 1.0 - c["inputs"]["WASTE_RETAIL"] / 100.0


def _s0(c):
    v = c["stored_food"].initial_available.kcals
    return float(np.ravel(v)[0]) if np.ndim(v) else float(v)


def audit(lp):
    """-> (violations, stats).  violations: list of dict(mech,msg,data)."""
    c, t, N = lp.consts, lp.time_consts, lp.N
    human = lp.kind == "to_humans"
    store = bool(c["STORE_FOOD_BETWEEN_YEARS"])
    viol = []
    st = {"kind": lp.kind, "N": N, "store": store, "families": {}, "maxres": {}}

    def bad(mech, msg, **data):
        data.update(kind=lp.kind, store=store)
        viol.append({"mech": mech, "msg": msg, "data": data})

    def res(name, value, scale):
        r = float(value) / max(1.0, float(scale))
        st["maxres"][name] = max(st["maxres"].get(name, -1e300), r)

    def fam(name, active, binding):
        st["families"][name] = {"active": bool(active), "binding": bool(binding)}

    def tol(scale):
        return ABS + REL * max(1.0, float(scale))

    # ---- non-negativity of everything the optimiser reports
    negs = []
    for name, lst in lp.variables.items():
        if not isinstance(lst, list) or not lp.has(name):
            continue
        v = lp.val(name)
        if np.isnan(v).all():
            continue
        v = np.nan_to_num(v)
        mx = max(1.0, float(np.abs(v).max()))
        if v.min() < -tol(mx):
            negs.append((name, int(v.argmin()), float(v.min())))
        res("neg:" + name, -v.min(), mx)
    for name, m, val in negs:
        bad("negative_quantity", "%s month %d = %g" % (name, m, val), variable=name, month=m, value=val)

    feed_parts = np.zeros(N)
    bio_parts = np.zeros(N)
    any_feed_capable = False

    # ---- stored food
    if c["ADD_STORED_FOOD"]:
        any_feed_capable = True
        S0 = _s0(c)
        ws = _w(c, "STORED_FOOD_WASTE_RETAIL")
        h, f, b = lp.val("stored_food_to_humans"), lp.val("stored_food_feed"), lp.val("stored_food_biofuel")
        use = h / ws + f + b
        cum = np.cumsum(use)
        over = cum - S0
        res("stored_food_cum_over", over.max(), S0)
        if over.max() > tol(S0):
            m = int(over.argmax())
            bad("stored_food_overdrawn", "cumulative stored-food use %.6g exceeds initial stock %.6g by month %d" % (cum[m], S0, m),
                month=m, used=float(cum[m]), stock=S0)
        if human:
            left = S0 - cum[-1]
            res("stored_food_left", left, S0)
            if left > tol(S0) + 1e-6 * S0:
                bad("stored_food_not_exhausted" + ("" if store else "_no_storage_regime"),
                    "stored food left unused at the end: %.6g of %.6g" % (left, S0), left=float(left), stock=S0)
        if not store:
            late = use[13:]
            if late.size and late.max() > tol(S0):
                bad("stored_food_used_after_first_year", "stored food used in month %d (no storage between years)" % (13 + int(late.argmax())),
                    month=13 + int(late.argmax()), used=float(late.max()))
        fam("stored_food", S0 > 0 and cum[-1] > tol(S0), abs(S0 - cum[-1]) <= 10 * tol(S0) and S0 > 0)
        feed_parts += f
        bio_parts += b

    # ---- outdoor crops
    if c["ADD_OUTDOOR_GROWING"]:
        any_feed_capable = True
        wc = _w(c, "CROP_WASTE_RETAIL")
        prod = np.asarray(t["outdoor_crops"].production.kcals, float)
        h, f, b = lp.val("crops_food_to_humans"), lp.val("crops_food_feed"), lp.val("crops_food_biofuel")
        use = h / wc + f + b
        cum, cp = np.cumsum(use), np.cumsum(prod)
        over = cum - cp
        res("crops_cum_over", over.max(), cp[-1])
        if over.max() > tol(cp[-1]):
            m = int(over.argmax())
            bad("crops_overdrawn", "cumulative crop use %.6g exceeds cumulative harvest %.6g at month %d" % (cum[m], cp[m], m),
                month=m, used=float(cum[m]), harvested=float(cp[m]))
        if human:
            left = cp[-1] - cum[-1]
            res("crops_left", left, cp[-1])
            if left > tol(cp[-1]) + 1e-6 * cp[-1]:
                bad("crops_not_exhausted", "harvested crops left unused at the end: %.6g of %.6g" % (left, cp[-1]), left=float(left), harvested=float(cp[-1]))
        slack = cp - cum
        fam("crops", cp[-1] > 0 and cum[-1] > tol(cp[-1]), (slack[:-1] <= 10 * tol(cp[-1])).any() if N > 1 else False)
        feed_parts += f
        bio_parts += b

    # ---- meat
    if c["ADD_MEAT"]:
        wm = _w(c, "MEAT_WASTE_RETAIL")
        sl = np.asarray(t["each_month_meat_slaughtered"].kcals, float)
        eaten = lp.val("meat_eaten") / wm
        tot = float(sl.sum())
        if store:
            over = np.cumsum(eaten) - np.cumsum(sl)
            res("meat_cum_over", over.max(), tot)
            if over.max() > tol(tot) + 1e-6 * tot:
                m = int(over.argmax())
                # classify: is the total respected (only timing borrowed) ?
                total_ok = eaten.sum() <= tot + tol(tot) + 1e-6 * tot
                bad("meat_eaten_before_slaughter" if total_ok else "meat_total_exceeded",
                    "cumulative meat eaten %.6g exceeds cumulative slaughter %.6g at month %d (overdraw %.4g)" % (
                        np.cumsum(eaten)[m], np.cumsum(sl)[m], m, over.max()),
                    month=m, overdraw=float(over.max()), total_ok=bool(total_ok))
            elif eaten.sum() > tot + tol(tot) + 1e-6 * tot:
                bad("meat_total_exceeded", "total meat eaten %.6g exceeds total slaughtered %.6g" % (eaten.sum(), tot))
            fam("meat", tot > 0 and eaten.sum() > tol(tot), (np.abs(over[:-1]) <= 10 * tol(tot)).any() if N > 1 else False)
        else:
            over = eaten - sl
            res("meat_month_over", over.max(), max(1.0, sl.max()))
            if over.max() > tol(sl.max()):
                m = int(over.argmax())
                bad("meat_month_exceeded_no_storage", "meat eaten %.6g exceeds slaughter %.6g in month %d" % (eaten[m], sl[m], m), month=m)
            fam("meat", tot > 0 and eaten.sum() > tol(tot), (np.abs(over) <= 10 * tol(sl.max())).any())

    # ---- SCP / cellulosic sugar
    for on, pre, wkey, tkey, nm in (
        (c["ADD_METHANE_SCP"], "methane_scp", "SCP_RETAIL_WASTE", "methane_scp", "scp"),
        (c["ADD_CELLULOSIC_SUGAR"], "cellulosic_sugar", "CELL_SUGAR_RETAIL_WASTE", "cellulosic_sugar", "cell_sugar"),
    ):
        if not on:
            continue
        any_feed_capable = True
        wr = _w(c, wkey)
        prod = np.asarray(t[tkey].kcals, float)
        h, f, b = lp.val(pre + "_to_humans"), lp.val(pre + "_feed"), lp.val(pre + "_biofuel")
        use = h / wr + f + b
        over = use - prod
        sc = max(1.0, prod.max())
        res(nm + "_month_over", over.max(), sc)
        if over.max() > tol(sc):
            m = int(over.argmax())
            bad(nm + "_month_exceeded", "%s use %.6g exceeds output %.6g in month %d" % (nm, use[m], prod[m], m), month=m)
        fam(nm, prod.sum() > 0 and use.sum() > tol(sc), (np.abs(over)[prod > 0] <= 10 * tol(sc)).any() if (prod > 0).any() else False)
        feed_parts += f
        bio_parts += b

    # ---- seaweed
    if c["ADD_SEAWEED"]:
        any_feed_capable = True
        I0, A0 = c["INITIAL_SEAWEED"], c["INITIAL_BUILT_SEAWEED_AREA"]
        dmax, dmin, hl = c["MAXIMUM_DENSITY"], c["MINIMUM_DENSITY"], c["HARVEST_LOSS"] / 100.0
        wsw = _w(c, "SEAWEED_WASTE_RETAIL")
        SK = c["SEAWEED_KCALS"]
        W, A = lp.val("seaweed_wet_on_farm"), lp.val("used_area")
        h, f, b = lp.val("seaweed_to_humans"), lp.val("seaweed_feed"), lp.val("seaweed_biofuel")
        built = np.asarray(t["built_area"], float)[:N]
        g = np.asarray(t["growth_rates_monthly"], float)[:N] / 100.0
        sc = max(1.0, float(np.abs(W).max()))
        if abs(W[0] - I0) > tol(sc) or abs(A[0] - A0) > tol(max(1.0, A0)):
            bad("seaweed_initial_state", "W0=%g (initial %g), A0=%g (initial %g)" % (W[0], I0, A[0], A0))
        if max(h[0], f[0], b[0]) > tol(sc):
            bad("seaweed_harvest_in_month0", "seaweed harvested in month 0: %g" % max(h[0], f[0], b[0]))
        exp = W[:-1] * (1 + g[1:]) - h[1:] / wsw - f[1:] - b[1:] - (A[1:] - A[:-1]) * dmin * hl
        r = np.abs(W[1:] - exp)
        res("seaweed_ledger", r.max() if r.size else 0, sc)
        if r.size and r.max() > 10 * tol(sc):
            m = 1 + int(r.argmax())
            bad("seaweed_ledger_broken", "seaweed biomass month %d is %.8g, ledger gives %.8g" % (m, W[m], exp[m - 1]), month=m, residual=float(r.max()))
        lo = I0 - W
        hi = W - dmax * built
        res("seaweed_below_start", lo.max(), sc)
        res("seaweed_above_density", hi.max(), sc)
        if lo.max() > tol(sc):
            bad("seaweed_below_starting_level", "seaweed biomass %.6g below starting level %.6g in month %d" % (W[int(lo.argmax())], I0, int(lo.argmax())), month=int(lo.argmax()))
        if hi.max() > tol(sc):
            m = int(hi.argmax())
            bad("seaweed_above_density_limit", "seaweed biomass %.6g above density limit %.6g in month %d" % (W[m], dmax * built[m], m), month=m)
        ao = A - built
        if ao.max() > tol(max(1.0, built.max())) or (A0 - A).max() > tol(max(1.0, A0)):
            bad("seaweed_area_out_of_bounds", "used area outside [initial, built]: max over %g, max under %g" % (ao.max(), (A0 - A).max()))
        fam("seaweed", (h + f + b).sum() > tol(sc), (np.abs(hi) <= 10 * tol(sc)).any() or (np.abs(lo[1:]) <= 10 * tol(sc)).any())
        feed_parts += f * SK
        bio_parts += b * SK

    # ---- feed / biofuel totals
    st["any_feed_capable"] = any_feed_capable
    if any_feed_capable:
        if human:
            fe = np.asarray(t["feed"].kcals, float)
            be = np.asarray(t["biofuel"].kcals, float)
            for nm, got, want in (("feed", feed_parts, fe), ("biofuel", bio_parts, be)):
                d = np.abs(got - want)
                sc = max(1.0, want.max())
                res(nm + "_sum_vs_charge", d.max(), sc)
                if d.max() > tol(sc) + 1e-6 * sc:
                    m = int(d.argmax())
                    bad(nm + "_sum_differs_from_charge", "%s allocated %.8g but charged %.8g in month %d" % (nm, got[m], want[m], m), month=m)
            fam("feed_charge", fe.sum() > 0, fe.sum() > 0)
            fam("biofuel_charge", be.sum() > 0, be.sum() > 0)
        else:
            fmax = np.asarray(t["max_feed_that_could_be_used"].kcals, float)
            bmax = np.asarray(t["max_biofuel_that_could_be_used"].kcals, float)
            for nm, got, cap in (("feed", feed_parts, fmax), ("biofuel", bio_parts, bmax)):
                over = got - cap
                sc = max(1.0, cap.max())
                res(nm + "_over_ceiling", over.max(), sc)
                if over.max() > tol(sc) + 1e-6 * sc:
                    m = int(over.argmax())
                    bad(nm + "_above_demand_ceiling", "%s %.8g above ceiling %.8g in month %d (animal round)" % (nm, got[m], cap[m], m), month=m)
            rise = np.diff(feed_parts)
            sc = max(1.0, feed_parts.max())
            res("feed_rise", rise.max() if rise.size else 0, sc)
            if rise.size and rise.max() > tol(sc) + 1e-6 * sc:
                m = 1 + int(rise.argmax())
                bad("feed_rises_month_to_month", "feed rises from %.8g to %.8g in month %d (animal round)" % (feed_parts[m - 1], feed_parts[m], m), month=m)
            fam("feed_ceiling", fmax.sum() > 0, (np.abs(feed_parts - fmax)[fmax > 0] <= 10 * tol(max(1.0, fmax.max()))).any() if (fmax > 0).any() else False)
            fam("feed_monotone", feed_parts.sum() > 0, rise.size > 0 and (np.abs(rise) <= tol(sc)).any() and feed_parts.sum() > 0)
    st["feed_total"] = float(feed_parts.sum())
    st["biofuel_total"] = float(bio_parts.sum())
    return viol, st
