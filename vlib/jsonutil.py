import math


def to_jsonable(x, depth=0):
    """Convert numpy scalars/arrays and odd keys into plain JSON values."""
    try:
        import numpy as np
    except Exception:  # pragma: no cover
        np = None
    if depth > 40:
        return repr(x)
    if x is None or isinstance(x, (bool, str)):
        return x
    if isinstance(x, int):
        return x
    if isinstance(x, float):
        if math.isnan(x) or math.isinf(x):
            return repr(x)
        return x
    if np is not None:
        if isinstance(x, np.generic):
            return to_jsonable(x.item(), depth + 1)
        if isinstance(x, np.ndarray):
            return [to_jsonable(v, depth + 1) for v in x.tolist()]
    if isinstance(x, dict):
        return {str(k): to_jsonable(v, depth + 1) for k, v in x.items()}
    if isinstance(x, (list, tuple, set, frozenset)):
        return [to_jsonable(v, depth + 1) for v in x]
    return repr(x)
