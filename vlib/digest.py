"""Bit-exact digest of everything a (country, scenario) run returns."""
import hashlib

import numpy as np


def _b(x):
    a = np.asarray(x, dtype=float)
    return a.tobytes() + str(a.shape).encode()


def run_digest(tr):
    """-> (hex digest, dict of per-part digests) for a capture.Trace"""
    parts = {}
    if tr.error is not None:
        parts["error"] = hashlib.sha256(("%s|%s" % (tr.error_type, tr.error[:200])).encode()).hexdigest()[:16]
    res = tr.result
    if res is not None:
        h = hashlib.sha256()
        h.update(repr(float(res.percent_people_fed)).encode())
        names = sorted(n for n in dir(res) if not n.startswith("_"))
        for n in names:
            try:
                v = getattr(res, n)
            except Exception:
                continue
            if hasattr(v, "kcals") and hasattr(v, "fat") and hasattr(v, "protein") and not callable(v):
                h.update(n.encode())
                h.update(_b(v.kcals))
                h.update(_b(v.fat))
                h.update(_b(v.protein))
                h.update(repr(list(getattr(v, "units", []))).encode())
        parts["interpreter_series"] = h.hexdigest()[:16]
        h = hashlib.sha256()
        for dname in ("meat_dictionary", "animal_population_dictionary"):
            d = getattr(res, dname, None) or {}
            for k in sorted(d):
                h.update(k.encode())
                h.update(_b(d[k]))
        parts["meat_and_herd_dictionaries"] = h.hexdigest()[:16]
        parts["headline"] = repr(float(res.percent_people_fed))
    h = hashlib.sha256()
    for lp in tr.lps:
        h.update(lp.kind.encode())
        h.update(repr(float(lp.objective)).encode())
    parts["optimiser_objectives"] = h.hexdigest()[:16]
    h = hashlib.sha256()
    for snap, obj in tr.herds:
        for a in obj.all_animals:
            h.update(a.animal_type.encode())
            for lst in ("population", "slaughter", "births_animals_month", "other_death_starving"):
                h.update(_b(getattr(a, lst)))
        h.update(_b(obj.feed_used.kcals))
        h.update(_b(obj.grass_used.kcals))
    parts["herd_trajectories"] = h.hexdigest()[:16]
    if getattr(tr, "saved_files", None) is not None:
        # the csv files written for the web interface (save_all_results): names and contents
        parts["saved_files"] = hashlib.sha256(repr(sorted(tr.saved_files.items())).encode()).hexdigest()[:16] + ":%d" % len(tr.saved_files)
    if getattr(tr, "returned_countries", None) is not None:
        # which countries the call handed back (a run hands back its own selection, whatever the runner served before)
        parts["returned_countries"] = ",".join(tr.returned_countries)
    full = hashlib.sha256(repr(sorted(parts.items())).encode()).hexdigest()[:20]
    return full, parts
