import json
import os

from vlib import env
from vlib.jsonutil import to_jsonable

EVDIR = os.environ.get("VERIF_EVIDENCE_DIR") or os.path.join(env.VERIF_ROOT, "evidence")


def write(prop, tier, seed, coverage, wall_s, violations, assumptions, extra=None):
    os.makedirs(EVDIR, exist_ok=True)
    doc = {
        "property_id": prop,
        "tier": tier,
        "seed": int(seed),
        "level": "exploration",
        "coverage": coverage,
        "assumptions": assumptions,
        "wall_s": float(round(wall_s, 2)),
        "violations": int(violations),
    }
    if extra:
        doc.update(extra)
    doc = to_jsonable(doc)
    path = os.path.join(EVDIR, prop + ".json")
    tmp = path + ".tmp"
    with open(tmp, "w") as fh:
        json.dump(doc, fh, indent=1, sort_keys=False)
        fh.write("\n")
    os.replace(tmp, path)
    return path
