"""python fresh_run.py case.json out.json — one (country, scenario) run alone in a fresh process; writes its digest."""
import contextlib
import io
import json
import os
import sys

sys.path.insert(0, os.path.dirname(os.path.dirname(os.path.abspath(__file__))))
from vlib import env  # noqa: E402


def main():
    case = json.load(open(sys.argv[1]))
    env.boot()
    from vlib import capture, digest

    with contextlib.redirect_stdout(io.StringIO()):
        tr = capture.run_pipeline(case)
    full, parts = digest.run_digest(tr)
    json.dump({"digest": full, "parts": parts, "error": tr.error}, open(sys.argv[2], "w"))


if __name__ == "__main__":
    main()
