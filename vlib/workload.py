"""Workload generators: countries, documented presets, option families, a greedy
pairwise covering array over the option families, and seeded random option
vectors.  Everything is deterministic in (seed)."""
import copy
import csv
import itertools
import os
import random

from vlib import env

FAMILIES_COMMON = {
    "scenario": [
        "no_resilient_foods",
        "all_resilient_foods",
        "all_resilient_foods_and_more_area",
        "seaweed",
        "methane_scp",
        "cellulosic_sugar",
        "industrial_foods",
        "relocated_crops",
        "greenhouse",
    ],
    "fish": ["zero", "baseline", "nuclear_winter"],
    "nutrition": ["baseline", "catastrophe"],
    "intake_constraints": ["enabled", "disabled_for_humans"],
    "stored_food": ["baseline", "zero"],
    "ratio_stocks_untouched": [
        "zero",
        "baseline",
        "no_stored_between_years",
        "baseline_no_stored_between_years",
    ],
    "shutoff": [
        "immediate",
        "one_month_delayed_shutoff",
        "short_delayed_shutoff",
        "long_delayed_shutoff",
        "continued",
        "continued_after_10_percent_fed",
        "long_delayed_shutoff_after_10_percent_fed",
    ],
    "cull": ["do_eat_culled", "dont_eat_culled"],
    "meat_strategy": ["reduce_breeding", "baseline_breeding", "feed_only_ruminants"],
    "NMONTHS": [120, 48, 60, 72, 84, 96, 108],
}
FAMILIES_COUNTRY = {
    "seasonality": ["country", "no_seasonality"],
    "grasses": ["baseline", "country_nuclear_winter", "all_crops_die_instantly"],
    "crop_disruption": ["zero", "country_nuclear_winter", "all_crops_die_instantly"],
    "waste": [
        "zero",
        "tripled_prices_in_country",
        "doubled_prices_in_country",
        "baseline_in_country",
    ],
}
FAMILIES_GLOBAL = {
    "seasonality": ["baseline_globally", "nuclear_winter_globally", "no_seasonality"],
    # grasses=all_crops_die_instantly is rejected at global scale by its setter (set_country_grasses_to_zero
    # asserts a country run); it is exercised as a rejected value in C13, not as a workload value here
    "grasses": ["baseline", "global_nuclear_winter"],
    "crop_disruption": ["zero", "global_nuclear_winter", "all_crops_die_instantly"],
    "waste": [
        "zero",
        "tripled_prices_globally",
        "doubled_prices_globally",
        "baseline_globally",
    ],
}
FIXED = {"fat": "not_required", "protein": "not_required"}

# Hostile subset always present in quick tiers (see DESIGN.md 2.3)
HOSTILE = [
    "LUX", "GUY", "CYP", "EST", "DJI", "SWT", "BRB", "MLT",  # POP < 1e7 / smallest
    "IND", "NZL", "SLV", "ALB", "ECU",
    "CHN", "USA", "BRA", "NGA",
    "ZAF", "JPN", "PRK", "KOR",
    "ARG", "MNG", "TCD", "NOR", "ISL", "BOL",
    "WOR",
]


# rows of the country table with a zero in a column most rows have a value in (no cropland: SGP; no feed and no biofuel use:
# BDI SYR LBY SOM SSD ERI BHR BTN BRN QAT; no aquatic food: TWN MNG; stocks at zero in some month: SUR BDI SSD; no dairy: PNG;
# no chickens: ROU SVK) - derived by scanning computer_readable_combined.csv for columns with 1..12 zeros
ZERO_ROWS = ["SGP", "BDI", "SYR", "SSD", "BHR", "SUR", "TWN", "PNG", "ROU", "QAT", "LBY", "SOM", "ERI", "BTN", "BRN", "SVK"]


def zero_rows(seed, k):
    """k of the degenerate rows, rotating with the seed (SGP, the only row without cropland, always first)"""
    isos = all_isos()
    z = [i for i in ZERO_ROWS if i in isos]
    return (["SGP"] + rotate(z[1:], seed * 3)[: max(0, k - 1)])[:k]


def families(scale):
    f = dict(FAMILIES_COMMON)
    f.update(FAMILIES_COUNTRY if scale == "country" else FAMILIES_GLOBAL)
    return f


def country_table():
    path = os.path.join(env.REPO, "data", "no_food_trade", "computer_readable_combined.csv")
    with open(path, newline="") as fh:
        return list(csv.DictReader(fh))


def all_isos():
    return [r["iso3"] for r in country_table()]


def base_country(**kw):
    d = dict(
        scale="country",
        seasonality="country",
        grasses="country_nuclear_winter",
        crop_disruption="country_nuclear_winter",
        fish="nuclear_winter",
        waste="baseline_in_country",
        nutrition="catastrophe",
        intake_constraints="enabled",
        stored_food="baseline",
        ratio_stocks_untouched="zero",
        shutoff="long_delayed_shutoff",
        cull="do_eat_culled",
        meat_strategy="reduce_breeding",
        scenario="no_resilient_foods",
        NMONTHS=120,
    )
    d.update(FIXED)
    d.update(kw)
    return d


def yaml_presets():
    """The shipped YAML simulations (distinct option vectors, NMONTHS from settings)."""
    import yaml

    out = []
    seen = set()
    for fn in ("argentina.yaml", "baseline_USA.yaml", "eu_countries.yaml"):
        cfg = yaml.safe_load(open(os.path.join(env.REPO, "scenarios", fn)))
        for name, sim in cfg["simulations"].items():
            sim = dict(sim)
            sim["NMONTHS"] = cfg["settings"]["NMONTHS"]
            key = tuple(sorted((k, str(v)) for k, v in sim.items() if k not in ("title", "buffer")))
            if key in seen:
                continue
            seen.add(key)
            out.append(("yaml:%s:%s" % (fn.split(".")[0], name), sim))
    return out


def manuscript_presets():
    """Scenarios of plot_manuscript_figures.py with the stale option key
    `end_simulation_stocks_ratio` renamed to the documented `ratio_stocks_untouched`."""
    common = dict(
        scale="country",
        NMONTHS=120,
        intake_constraints="enabled",
        nutrition="catastrophe",
        crop_disruption="country_nuclear_winter",
        grasses="country_nuclear_winter",
        fish="nuclear_winter",
        stored_food="baseline",
        seasonality="country",
        cull="do_eat_culled",
    )
    common.update(FIXED)
    out = []
    s = dict(common, scenario="no_resilient_foods", waste="baseline_in_country",
             shutoff="continued_after_10_percent_fed", meat_strategy="baseline_breeding",
             ratio_stocks_untouched="no_stored_between_years")
    out.append(("ms:fig1:no_adaptations", dict(s)))
    s.update(waste="tripled_prices_in_country", shutoff="long_delayed_shutoff_after_10_percent_fed")
    out.append(("ms:fig1:simple_adaptations", dict(s)))
    s.update(ratio_stocks_untouched="zero")
    out.append(("ms:fig1:simple_adaptations_rationing", dict(s)))
    s.update(meat_strategy="feed_only_ruminants", shutoff="long_delayed_shutoff")
    out.append(("ms:fig1:example_scenario", dict(s)))
    for sc in ("all_resilient_foods", "seaweed", "methane_scp", "cellulosic_sugar",
               "relocated_crops", "greenhouse"):
        s.update(scenario=sc)
        out.append(("ms:fig1:example+" + sc, dict(s)))
    g = dict(NMONTHS=120, crop_disruption="global_nuclear_winter", grasses="global_nuclear_winter",
             fish="nuclear_winter", seasonality="nuclear_winter_globally", scale="global",
             stored_food="baseline", nutrition="catastrophe", intake_constraints="enabled",
             scenario="no_resilient_foods", ratio_stocks_untouched="no_stored_between_years",
             cull="do_eat_culled", meat_strategy="baseline_breeding", waste="baseline_globally",
             shutoff="continued_after_10_percent_fed")
    g.update(FIXED)
    out.append(("ms:fig3:no_adaptations", dict(g)))
    g.update(waste="tripled_prices_globally", shutoff="long_delayed_shutoff_after_10_percent_fed")
    out.append(("ms:fig3:simple_adaptations", dict(g)))
    g.update(ratio_stocks_untouched="zero", meat_strategy="feed_only_ruminants", shutoff="long_delayed_shutoff")
    out.append(("ms:fig3:example_scenario", dict(g)))
    g.update(scenario="all_resilient_foods")
    out.append(("ms:fig3:resilient_foods", dict(g)))
    b = dict(NMONTHS=120, scale="global", crop_disruption="zero", grasses="baseline", fish="baseline",
             stored_food="baseline", nutrition="baseline", intake_constraints="enabled",
             scenario="no_resilient_foods", ratio_stocks_untouched="baseline",
             seasonality="baseline_globally", cull="do_eat_culled", meat_strategy="baseline_breeding",
             waste="baseline_globally", shutoff="continued")
    b.update(FIXED)
    out.append(("ms:figS1:baseline_global", b))
    return out


def is_global(opts):
    return opts.get("scale") == "global"


def single_option_variations(anchor_name, anchor):
    scale = anchor["scale"]
    out = []
    for fam, vals in families(scale).items():
        for v in vals:
            if anchor.get(fam) == v:
                continue
            o = dict(anchor)
            o[fam] = v
            out.append(("%s~%s=%s" % (anchor_name, fam, v), o))
    return out


def pairwise_rows(scale, seed):
    """Greedy pairwise covering array over the option families of `scale`."""
    fam = families(scale)
    names = list(fam)
    rnd = random.Random(seed * 7919 + (1 if scale == "country" else 2))
    uncovered = set()
    for a, b in itertools.combinations(range(len(names)), 2):
        for va in fam[names[a]]:
            for vb in fam[names[b]]:
                uncovered.add((a, va, b, vb))
    rows = []
    while uncovered:
        best, best_gain = None, -1
        unc_sorted = sorted(uncovered, key=str)
        for _ in range(30):
            # seed candidate with one uncovered pair, fill the rest greedily/randomly
            a, va, b, vb = rnd.choice(unc_sorted)
            cand = {names[a]: va, names[b]: vb}
            order = [n for n in names if n not in cand]
            rnd.shuffle(order)
            for n in order:
                i = names.index(n)
                bestv, bg = None, -1
                vals = list(fam[n])
                rnd.shuffle(vals)
                for v in vals:
                    g = 0
                    for n2, v2 in cand.items():
                        j = names.index(n2)
                        key = (i, v, j, v2) if i < j else (j, v2, i, v)
                        if key in uncovered:
                            g += 1
                    if g > bg:
                        bestv, bg = v, g
                cand[n] = bestv
            gain = 0
            for a2, b2 in itertools.combinations(range(len(names)), 2):
                if (a2, cand[names[a2]], b2, cand[names[b2]]) in uncovered:
                    gain += 1
            if gain > best_gain:
                best, best_gain = cand, gain
        for a2, b2 in itertools.combinations(range(len(names)), 2):
            uncovered.discard((a2, best[names[a2]], b2, best[names[b2]]))
        row = dict(best)
        row["scale"] = scale
        row.update(FIXED)
        rows.append(row)
    return rows


OVERRIDE_KEYS = [
    "MINIMUM_PERCENT_FED_BEFORE_NONHUMAN_CONSUMPTION_ALLOWED",
    "RATIO_STOCKS_UNTOUCHED",
    "CROP_PRODUCTION_MULTIPLIER",
    "GRASSES_PRODUCTION_MULTIPLIER",
]


def random_options(rnd, scale="country", overrides=True):
    fam = families(scale)
    o = {k: rnd.choice(v) for k, v in fam.items()}
    o["scale"] = scale
    o.update(FIXED)
    if overrides:
        if rnd.random() < 0.35:
            o["MINIMUM_PERCENT_FED_BEFORE_NONHUMAN_CONSUMPTION_ALLOWED"] = rnd.choice(
                [0, 5, 10, 25, 50, 75, 90, 100, round(rnd.uniform(0, 100), 2)])
        if rnd.random() < 0.2:
            o["RATIO_STOCKS_UNTOUCHED"] = round(rnd.choice([0, 1, rnd.random()]), 3)
        if rnd.random() < 0.2:
            o["CROP_PRODUCTION_MULTIPLIER"] = round(rnd.choice([0.1, 0.5, 1, 2, rnd.uniform(0, 3)]), 3)
        if scale == "country" and rnd.random() < 0.25:
            o["kg_meat_per_large_animal"] = rnd.choice([200, 350.5, 269.7, 120])
        if scale == "country" and rnd.random() < 0.15:
            o[rnd.choice(["milk_cattle_head", "meat_cattle_head", "chicken_head", "pig_head", "meat_sheep_head"])] = rnd.choice([0, 1000, 250000, 5000000])
        if rnd.random() < 0.2:
            o["GRASSES_PRODUCTION_MULTIPLIER"] = round(rnd.choice([0, 0.5, 1, 2, rnd.uniform(0, 3)]), 3)
    return o


def opt_key(opts):
    return tuple(sorted((k, str(v)) for k, v in opts.items() if k != "title"))


def pipeline_case(iso, opts, tag=""):
    o = copy.deepcopy(opts)
    if iso == "WOR":
        assert o.get("scale") == "global", (iso, o)
    return {"kind": "pipeline", "iso": iso, "opts": o, "tag": tag}


def rotate(seq, k):
    seq = list(seq)
    if not seq:
        return seq
    k %= len(seq)
    return seq[k:] + seq[:k]


def pipeline_grid(tier, seed, n_random_quick=24, n_random_thorough=200, per_row_quick=2,
                  presets=True):
    """The common grid of three-round runs used by C01/C02/C04/C05/C18.
    quick: pairwise rows x rotating hostile countries (+ a few presets, random rows);
    thorough: presets + pairwise + random over all countries (sampled per row)."""
    rnd = random.Random(1000 + seed)
    isos = all_isos()
    hostile = [i for i in HOSTILE if i != "WOR" and i in isos]
    hostile = hostile + [i for i in zero_rows(seed, 8) if i not in hostile]
    cases = []
    rows_c = pairwise_rows("country", seed)
    rows_g = pairwise_rows("global", seed)
    pres = (yaml_presets() + manuscript_presets()) if presets else []
    if tier == "quick":
        hk = rotate(hostile, seed * 5)
        for i, row in enumerate(rows_c):
            for j in range(per_row_quick):
                r2 = row
                if (i + j) % 4 == 0:  # the documented numeric overrides ride along on a quarter of the rows
                    r2 = dict(row, kg_meat_per_large_animal=[200, 350.5, 120][(i // 4) % 3])
                elif (i + j) % 4 == 2 and i % 3 == 0:
                    r2 = dict(row)
                    r2[["milk_cattle_head", "chicken_head", "meat_sheep_head", "pig_head"][(i // 3) % 4]] = [1000, 250000, 5000000][(i // 6) % 3]
                cases.append(pipeline_case(hk[(i * per_row_quick + j) % len(hk)], r2, "pairwise%d" % i))
        for i, row in enumerate(rows_g[::4]):
            cases.append(pipeline_case("WOR", row, "pairwiseG%d" % i))
        for i, (name, o) in enumerate(pres):
            if is_global(o):
                cases.append(pipeline_case("WOR", o, name))
            else:
                cases.append(pipeline_case(hk[(i * 3 + 1) % len(hk)], o, name))
        for i in range(n_random_quick):
            cases.append(pipeline_case(rnd.choice(isos), random_options(rnd), "random%d" % i))
    else:
        for i, row in enumerate(rows_c):
            sel = set(hostile[:12]) | set(rnd.sample(isos, 20))
            for k2, iso in enumerate(sorted(sel)):
                r2 = row
                if (i + k2) % 5 == 0:
                    r2 = dict(row, kg_meat_per_large_animal=[200, 350.5, 120][(i + k2) % 3])
                cases.append(pipeline_case(iso, r2, "pairwise%d" % i))
        for i, row in enumerate(rows_g):
            cases.append(pipeline_case("WOR", row, "pairwiseG%d" % i))
        for name, o in pres:
            if is_global(o):
                cases.append(pipeline_case("WOR", o, name))
            else:
                for iso in isos:
                    cases.append(pipeline_case(iso, o, name))
        for i in range(n_random_thorough):
            o = random_options(rnd)
            for iso in rnd.sample(isos, 6):
                cases.append(pipeline_case(iso, o, "random%d" % i))
        for i in range(n_random_thorough // 8):
            cases.append(pipeline_case("WOR", random_options(rnd, "global"), "randomG%d" % i))
    # rounds that charge feed and biofuel while resilient foods are produced, in both intake modes: where the share caps of the
    # resilient foods in feed / biofuel / human diets bind (a four-way conjunction no pairwise row is obliged to contain)
    surplus = [i for i in ("URY", "SWE", "CAN", "NZL", "CHL", "JPN", "USA", "BRA", "ARG", "AUS", "FIN", "NOR") if i in isos]
    sc = ["cellulosic_sugar", "industrial_foods", "all_resilient_foods", "methane_scp", "seaweed", "all_resilient_foods_and_more_area"]
    nch = 8 if tier == "quick" else 144
    for i in range(nch):
        o = base_country(scenario=sc[(i + seed) % 6], shutoff=["continued", "continued_after_10_percent_fed", "long_delayed_shutoff"][(i // 6 + seed) % 3],
                         intake_constraints=["disabled_for_humans", "enabled"][(i + i // 6) % 2], NMONTHS=[120, 72][(i // 3) % 2])
        cases.append(pipeline_case(surplus[(i + seed * 5) % len(surplus)], o, "charged_resilient%d" % i))
    for n, c in enumerate(cases):
        c["id"] = "%s/%s#%d" % (c["iso"], c["tag"], n)
    return cases


def script_presets():
    """The scenario presets exactly as plot_manuscript_figures.py submits them: the script's
    recalculate_plot_* functions are executed with its runner entry points replaced by recorders
    (nothing is simulated).  -> list of (name, options, countries_list)."""
    import collections
    import importlib.util
    import io
    import contextlib

    path = os.path.join(env.REPO, "plot_manuscript_figures.py")
    spec = importlib.util.spec_from_file_location("_verif_plot_manuscript_figures", path)
    mod = importlib.util.module_from_spec(spec)
    with contextlib.redirect_stdout(io.StringIO()):
        spec.loader.exec_module(mod)
    rec = []

    class _Res:
        percent_people_fed = 0.0

    def fake_runner(this_simulation, title, countries_list=[], figure_save_postfix="", return_results=False):
        rec.append((title, copy.deepcopy(this_simulation), list(countries_list)))
        return [None, 1.0, 1.0, collections.defaultdict(_Res)]

    def fake_global(this_simulation, title):
        rec.append((title, copy.deepcopy(this_simulation), ["WOR"]))
        return _Res()

    class _Stop(Exception):
        pass

    class FakeRunner:
        def set_depending_on_option(self, this_simulation, country_data=None):
            rec.append(("baseline_global", copy.deepcopy(this_simulation), ["WOR"]))
            raise _Stop()

    mod.call_scenario_runner = fake_runner
    mod.call_global_scenario_runner = fake_global
    mod.ScenarioRunner = FakeRunner
    out = []
    for fig in ("recalculate_plot_1", "recalculate_plot_2", "recalculate_plot_3", "recalculate_plot_s1"):
        n0 = len(rec)
        try:
            with contextlib.redirect_stdout(io.StringIO()):
                getattr(mod, fig)()
        except _Stop:
            pass
        for k, (title, o, cl) in enumerate(rec[n0:]):
            name = "script:%s:%d:%s" % (fig.replace("recalculate_plot_", "fig"), k, "".join(ch if ch.isalnum() else "_" for ch in title)[:40])
            out.append((name, o, cl))
    return out
