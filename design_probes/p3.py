import os; os.chdir("/repo")
import numpy as np, pandas as pd, copy
from src.scenarios.run_scenario import ScenarioRunner
from src.optimizer.parameters import Parameters
tab=pd.read_csv("/repo/data/no_food_trade/computer_readable_combined.csv")
base=dict(scale="country",seasonality="country",grasses="country_nuclear_winter",crop_disruption="country_nuclear_winter",fish="nuclear_winter",waste="baseline_in_country",fat="not_required",protein="not_required",nutrition="catastrophe",intake_constraints="enabled",stored_food="baseline",ratio_stocks_untouched="zero",shutoff="long_delayed_shutoff",cull="do_eat_culled",meat_strategy="reduce_breeding",NMONTHS=120)
def first_round(iso, scen, **kw):
    row=tab[tab.iso3==iso].iloc[0]
    opt=dict(base, scenario=scen, **kw)
    c,t,l=ScenarioRunner().set_depending_on_option(opt,country_data=row)
    out=Parameters().compute_parameters_first_round(c,t,l)
    return c,out
for iso in ("DJI","ARG"):
    c0,o0=first_round(iso,"no_resilient_foods")
    c1,o1=first_round(iso,"greenhouse")
    c2,o2=first_round(iso,"relocated_crops")
    c3,o3=first_round(iso,"all_resilient_foods")
    p0=o0[1]["outdoor_crops"].production.kcals; p1=o1[1]["outdoor_crops"].production.kcals; p2=o2[1]["outdoor_crops"].production.kcals; p3=o3[1]["outdoor_crops"].production.kcals
    gh=o1[1]["greenhouse_crops"].kcals
    print(iso,"no_res[40:44]",p0[40:44]); print(" greenhouse scen outdoor[40:44]",p1[40:44]," gh crops",gh[40:44])
    print(" equal no_res vs greenhouse outdoor:", np.allclose(p0,p1))
    print(" relocated[40:44]",p2[40:44], "dtype", p2.dtype, " any relocated<no_res:", (p2<p0-1e-9).sum())
    print(" all_res[40:44]",p3[40:44])
    scp=o3[1]["methane_scp"].kcals; print(" scp first nonzero idx", np.nonzero(scp)[0][:1], "delay", c3["DELAY"]["INDUSTRIAL_FOODS_MONTHS"]); cs=o3[1]["cellulosic_sugar"].kcals; print(" cs first nonzero idx", np.nonzero(cs)[0][:1])
    print(" fish len", len(o3[1]["fish"].to_humans.kcals), "built_area len", len(o3[1]["built_area"]), "growth len", len(o3[1]["growth_rates_monthly"]))
