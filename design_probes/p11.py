import os,sys,time,io,contextlib,copy,hashlib; os.chdir("/repo")
import numpy as np, yaml
import src.optimizer.interpret_results as ir, src.scenarios.run_scenario as rs
ir.repo_root="/tmp/probe"; rs.repo_root="/tmp/probe"
from src.optimizer.optimizer import Optimizer
from src.food_system import animal_populations as ap
from src.scenarios.run_model_no_trade import ScenarioRunnerNoTrade
herds=[]; opts=[]
oi=ap.CalculateFeedAndMeat.__init__
def wi(self,*a,**k):
    oi(self,*a,**k); herds.append((k.get("available_feed"),self))
ap.CalculateFeedAndMeat.__init__=wi
oo=Optimizer.__init__
def wo(self,c,t):
    oo(self,c,t); opts.append((c,t))
Optimizer.__init__=wo
cfg=yaml.safe_load(open("/repo/scenarios/argentina.yaml"))
def run(iso,which,**kw):
    name,sim=list(cfg["simulations"].items())[which]; sim=dict(sim); sim["NMONTHS"]=120; sim.update(kw)
    herds.clear(); opts.clear()
    with contextlib.redirect_stdout(io.StringIO()):
        r=ScenarioRunnerNoTrade().run_model_no_trade(title="t",create_pptx_with_all_countries=False,show_country_figures=False,show_map_figures=False,add_map_slide_to_pptx=False,scenario_option=sim,countries_list=[iso],return_results=True)
    res=list(r[3].values())[0]
    series=[res.percent_people_fed]+[getattr(res,n).kcals.tobytes() for n in ("fish_kcals_equivalent","meat_kcals_equivalent","milk_kcals_equivalent","stored_food_kcals_equivalent","immediate_outdoor_crops_kcals_equivalent","new_stored_outdoor_crops_kcals_equivalent","seaweed_kcals_equivalent","scp_kcals_equivalent","cell_sugar_kcals_equivalent","greenhouse_kcals_equivalent")]+[np.array(v,dtype=float).tobytes() for k,v in sorted(res.meat_dictionary.items())]
    return hashlib.sha256(repr(series).encode()).hexdigest()[:12], res
# C14 sandwich
hA1,_=run("ARG",4); hB,_=run("LUX",0,nutrition="catastrophe"); hA2,_=run("ARG",4); hB2,_=run("LUX",0,nutrition="catastrophe")
print("A",hA1,"B",hB,"A again",hA2,"B again",hB2, "OK" if hA1==hA2 and hB==hB2 else "DIFF")
# C05 prototype on last run of ARG preset 4
h,res=run("ARG",4)
print("n herds",len(herds),"n optimizers",len(opts))
kg={"small":2.36,"medium":24.6,"large":269.7}; kc={"small":1525,"medium":3590,"large":2750}
for r,((c,t),(feed,obj)) in enumerate(zip(opts,herds)):
    inp=c["inputs"]; dist=inp["WASTE_DISTRIBUTION"]["MEAT"]/100
    meat=np.zeros(120); milkpop=np.zeros(120)
    for a in obj.all_animals:
        sl=np.array(a.slaughter,float)
        if a.animal_type=="chicken": y=inp["KG_MEAT_PER_CHICKEN"]*1525/1e9
        elif a.animal_type=="pig": y=inp["KG_MEAT_PER_PIG"]*3590/1e9
        else: y=kg[a.animal_size]*kc[a.animal_size]/1e9
        meat+=sl*y*(1-dist)
        if "milk" in a.animal_type: milkpop+=np.array(a.population,float)
    milk=milkpop*inp["MILK_YIELD_KG_PER_MILK_BEARING_ANIMAL_PER_YEAR"]/12/1000*1e3*610/1e9*(1-inp["WASTE_DISTRIBUTION"]["MILK"]/100)*(1-inp["WASTE_RETAIL"]/100)
    em=t["each_month_meat_slaughtered"].kcals
    print("round",r+1,"meat monthly maxrel %.2e"%np.max(np.abs(em-meat)/np.maximum(1e-9,np.abs(meat).max())),"total rel %.2e"%((em.sum()-meat.sum())/meat.sum()),"milk maxrel %.2e"%np.max(np.abs(t["milk_kcals"]-milk)/milk.max()), "feed charged-min-eaten %.4f"%(t["feed"].kcals-obj.feed_used.kcals).min(), "grass ok", (obj.grass_used.kcals<=np.array([1e30]*120)).all())
