import os; os.chdir("/repo")
import numpy as np, itertools
from src.food_system.food import Food
Food.conversions.set_nutrition_requirements(2345.0,55.5,48.25,True,True,3.3e7)
f=Food(1,1,1)
K=list(f.get_kcal_multipliers()); Fa=list(f.get_fat_multipliers()); P=list(f.get_protein_multipliers())
print(len(K),len(Fa),len(P))
def base(u): return u.replace(" each month","").replace(" per month","")
def suf(u): return " each month" if u.endswith(" each month") else (" per month" if u.endswith(" per month") else "")
bad=0; n=0
for fam in ("",) :
  for sfx in (""," per month"," each month"):
    ks=[k for k in K if suf(k)==sfx]; fs=[k for k in Fa if suf(k)==sfx]; ps=[k for k in P if suf(k)==sfx]
    for ku in ks:
      for fu in fs[:6]:
        for pu in ps[:6]:
            val=(np.array([3.0,0.5]),np.array([2.0,7.0]),np.array([1.5,9.0])) if sfx==" each month" else (3.0,2.0,1.5)
            x=Food(val[0],val[1],val[2],ku,fu,pu)
            for kt in set(base(k) for k in K):
                for ft in list(set(base(k) for k in Fa))[:3]:
                    pt=ft if ft in set(base(k) for k in P) else "thousand tons"
                    try:
                        y=x.in_units(kt,ft,pt); z=y.in_units(base(ku),base(fu),base(pu)); n+=1
                    except AssertionError as e:
                        bad+=1; 
                        if bad<4: print("ASSERT",ku,fu,pu,"->",kt,ft,pt,str(e)[:60])
                        continue
                    ok=np.allclose(z.kcals,x.kcals,rtol=1e-12) and np.allclose(z.fat,x.fat,rtol=1e-12) and np.allclose(z.protein,x.protein,rtol=1e-12) and z.units==x.units and suf(y.kcals_units)==sfx
                    if not ok:
                        bad+=1
                        if bad<6: print("BAD",x.units,"->",y.units,"->",z.units, z.kcals, x.kcals)
print("round trips",n,"bad",bad)
# anchors
c=Food.conversions
need=Food(c.billion_kcals_needed,c.thou_tons_fat_needed,c.thou_tons_protein_needed,"billion kcals per month","thousand tons per month","thousand tons per month")
print("anchor %",need.in_units_percent_fed().kcals, need.in_units_percent_fed().fat,"| daily",need.in_units_kcals_grams_grams_per_person().kcals,need.in_units_kcals_grams_grams_per_person().fat,need.in_units_kcals_grams_grams_per_person().protein,"| billions",need.in_units_billions_fed().kcals, c.population/1e9, need.in_units_kcals_equivalent().fat)
