import os,sys,io,contextlib,hashlib; os.chdir("/repo")
import numpy as np, yaml, pandas as pd
import src.optimizer.interpret_results as ir, src.scenarios.run_scenario as rs
ir.repo_root="/tmp/probe"; rs.repo_root="/tmp/probe"
from src.optimizer.optimizer import Optimizer
from src.scenarios.run_scenario import ScenarioRunner
from src.scenarios.run_model_no_trade import ScenarioRunnerNoTrade
objs=[]
o1=Optimizer.optimize_to_humans
def w1(self,*a,**k):
    r=o1(self,*a,**k); objs.append(r[3]); return r
Optimizer.optimize_to_humans=w1
cfg=yaml.safe_load(open("/repo/scenarios/argentina.yaml"))
which=int(sys.argv[1]); name,sim=list(cfg["simulations"].items())[which]; sim=dict(sim); sim["NMONTHS"]=120
for iso in sys.argv[2].split(","):
    objs.clear()
    with contextlib.redirect_stdout(io.StringIO()):
        r=ScenarioRunnerNoTrade().run_model_no_trade(title="t_"+iso,create_pptx_with_all_countries=False,show_country_figures=False,show_map_figures=False,add_map_slide_to_pptx=False,scenario_option=sim,countries_list=[iso],return_results=True)
    res=list(r[3].values())[0]
    csv=pd.read_csv("/tmp/probe/results/t_%s_round3_ykcals.csv"%iso,index_col=0)
    ssum=sum(getattr(res,n).kcals for n in ["fish_kcals_equivalent","cell_sugar_kcals_equivalent","scp_kcals_equivalent","greenhouse_kcals_equivalent","seaweed_kcals_equivalent","milk_kcals_equivalent","meat_kcals_equivalent","immediate_outdoor_crops_kcals_equivalent","new_stored_outdoor_crops_kcals_equivalent","stored_food_kcals_equivalent"])
    kd=res.constants["KCALS_DAILY"]
    h=hashlib.sha256(repr((res.percent_people_fed, csv.values.tobytes())).encode()).hexdigest()[:12]
    print(iso,"headline",repr(res.percent_people_fed),"obj",repr(objs[-1]),"diff",res.percent_people_fed-objs[-1],"min-sum-kcal-eq",ssum.min()/kd*100-res.percent_people_fed,"csvsum-min",csv.sum(axis=1).min()/kd*100-res.percent_people_fed, h)
