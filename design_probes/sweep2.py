import os,sys,time,io,contextlib,json,tempfile,shutil; os.chdir(os.environ.get("R","/repo")); sys.path.insert(0,os.environ.get("R","/repo")); sys.path.insert(0,"/tmp/probe")
import numpy as np, yaml, pandas as pd
scr=tempfile.mkdtemp(prefix="sweep_"); os.makedirs(scr+"/results")
import src.optimizer.interpret_results as ir, src.scenarios.run_scenario as rs
ir.repo_root=scr; rs.repo_root=scr
from src.optimizer.optimizer import Optimizer
from src.scenarios.run_scenario import ScenarioRunner
from src.scenarios.run_model_no_trade import ScenarioRunnerNoTrade
from reflp import ref_lp
lp=[]; rounds=[]
o1=Optimizer.optimize_to_humans
def w1(self,c,t):
    r=o1(self,c,t); lp.append((self.consts_for_optimizer,self.time_consts,r[3])); return r
Optimizer.optimize_to_humans=w1
orig=ScenarioRunner.run_optimizer
def w(self,c,t,optimization_type=None,min_human_food_consumption=None,title="Untitled"):
    r=orig(self,c,t,optimization_type=optimization_type,min_human_food_consumption=min_human_food_consumption,title=title)
    rounds.append((title[-6:],r,c)); return r
ScenarioRunner.run_optimizer=w
cfg=yaml.safe_load(open(os.environ.get("R","/repo")+"/scenarios/argentina.yaml"))
which=int(sys.argv[1]); shard=int(sys.argv[2]); nsh=int(sys.argv[3])
name,sim=list(cfg["simulations"].items())[which]; sim=dict(sim); sim["NMONTHS"]=120
for kv in sys.argv[4:]:
    k,v=kv.split("="); sim[k]=v
isos=list(pd.read_csv("/repo/data/no_food_trade/computer_readable_combined.csv").iso3)[shard::nsh]
out=[]
for iso in isos:
    lp.clear(); rounds.clear()
    with contextlib.redirect_stdout(io.StringIO()):
        try: ScenarioRunnerNoTrade().run_model_no_trade(title="t",create_pptx_with_all_countries=False,show_country_figures=False,show_map_figures=False,add_map_slide_to_pptx=False,scenario_option=sim,countries_list=[iso],return_results=True)
        except BaseException as e: out.append({"iso":iso,"fail":str(e)[:60]}); continue
    d={"iso":iso,"T":rounds[-1][2]["inputs"]["MINIMUM_PERCENT_FED_BEFORE_NONHUMAN_CONSUMPTION_ALLOWED"]}
    for tag,res,c in rounds:
        d[tag]=round(res.percent_people_fed,4); d[tag+"_fb"]=round(float(res.feed_and_biofuels_sum.kcals.max()),4)
    gaps=[]
    for c,t,z in lp:
        r=ref_lp("to_humans",c,t,None,physical_meat=True)
        gaps.append(round((z-(-r.fun))/max(1,abs(r.fun)),7) if r.status==0 else None)
    d["gaps"]=gaps
    out.append(d)
shutil.rmtree(scr); print(json.dumps(out))
