import os,sys; os.chdir("/repo")
import numpy as np
from src.food_system import animal_populations as ap
from src.food_system.food import Food
Food.conversions.set_nutrition_requirements(2100,47,51,False,False,1e6)
hours_log=[]
orig=ap.calculate_net_slaughter_hours_by_size
def wh(animals):
    r=orig(animals); hours_log.append(dict(r)); return r
ap.calculate_net_slaughter_hours_by_size=wh
def run(iso,strategy,feedlvl,grasslvl,N=120):
    hours_log.clear()
    feed=ap.Debugging.available_feed_function(feedlvl,N); grass=ap.Debugging.available_grass_function(grasslvl,N)
    animals,fu,gu=ap.main(iso,feed,grass,strategy,remove_first_month=0)
    worst=0; neg=0; tr=0; hrs=0; below=0
    L=lambda a,n: np.array(getattr(a,n),dtype=float)
    bymilk={a.animal_species:a for a in animals if a.animal_function=="milk"}
    for a in animals:
        pop=L(a,"population"); assert len(pop)==N+1,(len(pop))
        births=L(a,"births_animals_month"); tp=L(a,"transfer_population"); od=L(a,"other_death_causes_other_than_starving")[1:]; sl=L(a,"slaughter")[1:]; st=L(a,"other_death_starving")[1:]
        hk=L(a,"homekill_healthy_this_month")[1:]+L(a,"homekill_starving_this_month")[1:]
        assert len(births)==N and len(tp)==N and len(od)==N, (len(births),len(tp),len(od))
        if a.animal_function=="milk":
            ret=L(a,"retiring_milk_animals"); inn=births; out=ret
        else:
            inn=births+tp; out=0
        exp=np.maximum(0,pop[:-1]+inn-out-od-sl-st-hk)
        worst=max(worst,np.max(np.abs(exp-pop[1:])/np.maximum(1,pop[:-1])))
        for nm,arr in (("pop",pop),("births",births),("od",od),("sl",sl),("st",st),("tp",tp if a.animal_function!="milk" else -tp)):
            if (arr< -1e-9).any(): neg+=1; print("  NEG",a.animal_type,nm,arr.min())
        sp=L(a,"population_starving_pre_slaughter")
        if (sp< -1e-9).any(): print("  NEG starving_pre",a.animal_type,sp.min(), "at",sp.argmin())
        if a.animal_function!="milk" and a.animal_species in bymilk:
            m=bymilk[a.animal_species]; tr=max(tr,np.max(np.abs(tp-(L(m,"retiring_milk_animals")+L(m,"transfer_births")))))
        pre=pop[:-1]+inn-out-od
        if ((sl>pre+1e-6)&(sl>0)).any(): print("  SL>avail",a.animal_type)
        tgt=a.target_population_head
        bad=(pre>=tgt)&(pre-sl<tgt-1e-6*max(1,tgt))
        if bad.any(): below+=1
    for size in ("small","medium","large"):
        used=sum(L(a,"slaughter")[1:]*a.animal_slaughter_hours for a in animals if a.animal_size==size)
        cap=np.array([h[size] for h in hours_log])
        if np.ndim(used) and (used>cap*(1+1e-9)+1e-6).any(): hrs+=1; print("  HOURS exceeded",size,(used-cap).max())
    print(iso,strategy,feedlvl,grasslvl,"species",len(animals),"ledger rel err %.2e"%worst,"transfer err %.2e"%tr,"neg",neg,"below_target",below,"feed used frac",(fu.kcals.sum()/max(1e-9,feedlvl*N)).round(3))
for iso in ("ARG","IND","DJI","SWT","WOR","MNG"):
    for strat in ("baseline","reduced","feed_only_ruminants"):
        scale={"WOR":5000,"IND":600,"ARG":100,"MNG":20}.get(iso,1)
        for f,g in ((0,0),(scale*0.3,scale*1.0),(scale*3,scale*10)):
            run(iso,strat,f,g)
