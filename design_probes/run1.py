import sys, time, os, copy
os.chdir("/repo")
import yaml
t0=time.time()
from src.scenarios.run_model_no_trade import ScenarioRunnerNoTrade
import src.optimizer.interpret_results as ir, src.scenarios.run_scenario as rs
ir.repo_root="/tmp/probe"; rs.repo_root="/tmp/probe"
print("import", time.time()-t0)
cfg=yaml.safe_load(open("/repo/scenarios/argentina.yaml"))
iso=sys.argv[1]; which=int(sys.argv[2])
name,sim=list(cfg["simulations"].items())[which]
sim=dict(sim); sim["NMONTHS"]=120
t0=time.time()
r=ScenarioRunnerNoTrade().run_model_no_trade(title="probe", create_pptx_with_all_countries=False, show_country_figures=False, show_map_figures=False, add_map_slide_to_pptx=False, scenario_option=sim, countries_list=[iso], return_results=True)
print(name, iso, "time", time.time()-t0, r[1], r[2], {k:v.percent_people_fed for k,v in r[3].items()})
