import os,sys,time,io,contextlib,copy; os.chdir("/repo")
import numpy as np, yaml
import src.optimizer.interpret_results as ir, src.scenarios.run_scenario as rs
ir.repo_root="/tmp/probe"; rs.repo_root="/tmp/probe"
from src.optimizer.optimizer import Optimizer
from src.scenarios.run_model_no_trade import ScenarioRunnerNoTrade
cap=[]
o1=Optimizer.optimize_to_humans
def w1(self,c,t):
    r=o1(self,c,t); cap.append((copy.deepcopy(self.consts_for_optimizer),copy.deepcopy(self.time_consts),r[3])); return r
Optimizer.optimize_to_humans=w1
cfg=yaml.safe_load(open("/repo/scenarios/argentina.yaml"))
name,sim=list(cfg["simulations"].items())[4]; sim=dict(sim); sim["NMONTHS"]=120
with contextlib.redirect_stdout(io.StringIO()):
    ScenarioRunnerNoTrade().run_model_no_trade(title="t",create_pptx_with_all_countries=False,show_country_figures=False,show_map_figures=False,add_map_slide_to_pptx=False,scenario_option=sim,countries_list=[sys.argv[1]],return_results=True)
Optimizer.optimize_to_humans=o1
c,t,z=cap[-1]   # round 3
def solve(c,t):
    return Optimizer(c,t).optimize_to_humans(c,t)[3]
print("base",z, solve(copy.deepcopy(c),copy.deepcopy(t)))
def scaled(c,t,k):
    c=copy.deepcopy(c); t=copy.deepcopy(t)
    c["POP"]*=k; c["POP_BILLIONS"]*=k; c["BILLION_KCALS_NEEDED"]*=k
    c["stored_food"].initial_available=c["stored_food"].initial_available*k
    c["meat_summed_consumption"]*=k; c["INITIAL_SEAWEED"]*=k; c["INITIAL_BUILT_SEAWEED_AREA"]*=k
    t["built_area"]=t["built_area"]*k
    for key in ("methane_scp","cellulosic_sugar","feed","biofuel","each_month_meat_slaughtered","greenhouse_crops"): t[key]=t[key]*k
    t["outdoor_crops"].production=t["outdoor_crops"].production*k
    t["fish"].to_humans=t["fish"].to_humans*k
    t["milk_kcals"]=np.array(t["milk_kcals"])*k
    t["max_consumed_culled_kcals_each_month"]=np.array(t["max_consumed_culled_kcals_each_month"])*k
    return c,t
for k in (1e-3,7,1e3):
    t0=time.time(); print("scale",k,solve(*scaled(c,t,k)),"%.2fs"%(time.time()-t0))
c2,t2=copy.deepcopy(c),copy.deepcopy(t); t2["methane_scp"].kcals[30]*=1.5; print("scp+ m30",solve(c2,t2))
c2,t2=copy.deepcopy(c),copy.deepcopy(t); t2["outdoor_crops"].production.kcals[:]*=1.1; print("crops+10%",solve(c2,t2))
c2,t2=copy.deepcopy(c),copy.deepcopy(t); c2["CROP_WASTE_RETAIL"]=max(0,c2["CROP_WASTE_RETAIL"]-5); print("crop retail waste -5",solve(c2,t2))
c2,t2=copy.deepcopy(c),copy.deepcopy(t); t2["feed"].kcals[:]*=1.05; print("feed+5%",solve(c2,t2))
