import os; os.chdir("/repo")
import numpy as np
from src.food_system.food import Food
Food.conversions.set_nutrition_requirements(2100,47,51,True,True,1e6)
# C11 probes
m=Food([1.,2.,3.],[1.,2.,3.],[1.,2.,3.],"billion kcals each month","thousand tons each month","thousand tons each month")
g=m.get_month(1); print("get_month units", g.kcals_units, "| list:", g.units)
i=m[1]; print("getitem units", i.kcals_units, i.units, type(i.kcals))
r=Food.ratio_one(); u=Food(2,3,4)
print("ratio*unit:", (r*u).units, " unit*ratio:", (u*r).units)
for inc_f in (True,False):
  for inc_p in (True,False):
    Food.conversions.set_nutrition_requirements(2100,47,51,inc_f,inc_p,1e6)
    a=Food(1,5,1); b=Food(2,1,2)
    am=Food([1.],[5.],[1.],"billion kcals each month","thousand tons each month","thousand tons each month"); bm=Food([2.],[1.],[2.],"billion kcals each month","thousand tons each month","thousand tons each month")
    print(inc_f,inc_p,"any_greater_than scalar",a.any_greater_than(b),"monthly",am.any_greater_than(bm), "| any_less_than", b.any_less_than(a), bm.any_less_than(am))
# C07 probe
from src.food_system.animal_populations import AnimalSpecies
class C: LSU_conversion_factors={"x":1.0}
s=AnimalSpecies("x","x"); s.set_animal_attributes(1000,10,"meat",1.0,"ruminant","large",5); s.set_LSU_attributes(C())
need=s.net_energy_required_per_species(); print("NE need", need)
for frac in (0.25,0.5,0.75,0.9):
    s.reset_NE_balance(); s.population_fed=0
    grass=Food(0.,0,0); feed=Food(need*frac/0.8,0,0)
    s.feed_the_species(grass,feed,True)
    print("delivered frac",frac,"fed",s.population_fed,"of",s.current_population,"balance",s.NE_balance.kcals/need)
print("strip:", "rabbit_head_start".strip("_start"), "turkey_head_start".strip("_start"), "asses_head_start".strip("_start"), "chicken_head_start".strip("_start"), "meat_cattle_head_start".strip("_start"))
