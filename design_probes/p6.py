import os,sys,time,io,contextlib; os.chdir("/repo")
import numpy as np, yaml, pandas as pd
import src.optimizer.interpret_results as ir, src.scenarios.run_scenario as rs
ir.repo_root="/tmp/probe"; rs.repo_root="/tmp/probe"
from src.scenarios.run_scenario import ScenarioRunner
from src.scenarios.run_model_no_trade import ScenarioRunnerNoTrade
cap=[]
orig=ScenarioRunner.run_optimizer
def w(self,c,t,optimization_type=None,min_human_food_consumption=None,title="Untitled"):
    r=orig(self,c,t,optimization_type=optimization_type,min_human_food_consumption=min_human_food_consumption,title=title)
    cap.append((title,optimization_type,r,c,t)); return r
ScenarioRunner.run_optimizer=w
cfg=yaml.safe_load(open("/repo/scenarios/argentina.yaml"))
which=int(sys.argv[1]); name,sim=list(cfg["simulations"].items())[which]; sim=dict(sim); sim["NMONTHS"]=120
for kv in sys.argv[3:]:
    k,v=kv.split("="); sim[k]=v
for iso in sys.argv[2].split(","):
    cap.clear()
    with contextlib.redirect_stdout(io.StringIO()):
        try:
            r=ScenarioRunnerNoTrade().run_model_no_trade(title="t_"+iso,create_pptx_with_all_countries=False,show_country_figures=False,show_map_figures=False,add_map_slide_to_pptx=False,scenario_option=sim,countries_list=[iso],return_results=True)
        except BaseException as e:
            r=None; err=repr(e)[:100]
    if r is None: print(iso,"FAILED",err); continue
    out=[]
    for title,typ,res,c,t in cap:
        fb=res.feed_and_biofuels_sum.kcals
        out.append((title[-6:],round(res.percent_people_fed,3), "fbmax%.3f"%fb.max()))
    T=cap[-1][3]["inputs"]["MINIMUM_PERCENT_FED_BEFORE_NONHUMAN_CONSUMPTION_ALLOWED"]
    print(iso,"T",T,out)
