"""Throw-away prototype of the independent reference LP (C02 design probe)."""
import numpy as np
from scipy.optimize import linprog
from scipy.sparse import lil_matrix

def ref_lp(kind, c, t, mhc=None, physical_meat=True):
    N=c["NMONTHS"]; names=[]
    def add(n): names.extend((n,m) for m in range(N))
    SF=c["ADD_STORED_FOOD"]; OG=c["ADD_OUTDOOR_GROWING"]; ME=c["ADD_MEAT"]; SC=c["ADD_METHANE_SCP"]; CS=c["ADD_CELLULOSIC_SUGAR"]; SW=c["ADD_SEAWEED"]
    if SF: [add(x) for x in ("sf_h","sf_f","sf_b")]
    if OG: [add(x) for x in ("cr_h","cr_f","cr_b")]
    if ME: add("me")
    if SC: [add(x) for x in ("sc_h","sc_f","sc_b")]
    if CS: [add(x) for x in ("cs_h","cs_f","cs_b")]
    if SW: [add(x) for x in ("sw_W","sw_h","sw_f","sw_b","sw_A")]
    idx={k:i for i,k in enumerate(names)}; nv=len(names)
    human = kind=="to_humans"
    if human: zi=nv; nv+=1
    rows_ub=[]; rhs_ub=[]; rows_eq=[]; rhs_eq=[]
    def row(d): return d
    def ub(d,r): rows_ub.append(d); rhs_ub.append(r)
    def eq(d,r): rows_eq.append(d); rhs_eq.append(r)
    V=lambda n,m: idx[(n,m)]
    w=lambda key: 1-c[key]/100
    SK=c["SEAWEED_KCALS"]; BKN=c["BILLION_KCALS_NEEDED"]
    # stored food
    if SF:
        S0=float(np.ravel(c["stored_food"].initial_available.kcals)[0]) if np.ndim(c["stored_food"].initial_available.kcals) else float(c["stored_food"].initial_available.kcals)
        ws=w("STORED_FOOD_WASTE_RETAIL"); store=c["STORE_FOOD_BETWEEN_YEARS"]
        for m in range(N):
            d={}
            for k in range(m+1):
                d[V("sf_h",k)]=1/ws; d[V("sf_f",k)]=1; d[V("sf_b",k)]=1
            if not store and m>12:
                for n in ("sf_h","sf_f","sf_b"): eq({V(n,m):1},0)
            if m==N-1 and human and store: eq(d,S0)
            else: ub(d,S0)
    if OG:
        wc=w("CROP_WASTE_RETAIL"); prod=np.asarray(t["outdoor_crops"].production.kcals,float); cp=np.cumsum(prod)
        for m in range(N):
            d={}
            for k in range(m+1):
                d[V("cr_h",k)]=1/wc; d[V("cr_f",k)]=1; d[V("cr_b",k)]=1
            if m==N-1 and human: eq(d,cp[m])
            else: ub(d,cp[m])
    if ME:
        wm=w("MEAT_WASTE_RETAIL"); sl=np.asarray(t["each_month_meat_slaughtered"].kcals,float); run=np.asarray(t["max_consumed_culled_kcals_each_month"],float)
        if c["STORE_FOOD_BETWEEN_YEARS"]:
            if physical_meat:
                for m in range(N): ub({V("me",k):1/wm for k in range(m+1)}, np.cumsum(sl)[m])
            else:
                ub({V("me",k):1/wm for k in range(N)}, c["meat_summed_consumption"])
                for m in range(N): ub({V("me",m):1/wm}, run[m])
        else:
            for m in range(N): ub({V("me",m):1/wm}, sl[m])
    if SC:
        for m in range(N): ub({V("sc_h",m):1/w("SCP_RETAIL_WASTE"),V("sc_f",m):1,V("sc_b",m):1}, t["methane_scp"].kcals[m])
    if CS:
        for m in range(N): ub({V("cs_h",m):1/w("CELL_SUGAR_RETAIL_WASTE"),V("cs_f",m):1,V("cs_b",m):1}, t["cellulosic_sugar"].kcals[m])
    if SW:
        I0=c["INITIAL_SEAWEED"]; A0=c["INITIAL_BUILT_SEAWEED_AREA"]; dmax=c["MAXIMUM_DENSITY"]; dmin=c["MINIMUM_DENSITY"]; hl=c["HARVEST_LOSS"]/100; wsw=w("SEAWEED_WASTE_RETAIL")
        for m in range(N):
            ba=t["built_area"][m]
            ub({V("sw_W",m):-1},-I0); ub({V("sw_W",m):1},dmax*ba); ub({V("sw_A",m):-1},-A0); ub({V("sw_A",m):1},ba)
            if m==0:
                eq({V("sw_W",0):1},I0); eq({V("sw_A",0):1},A0)
                for n in ("sw_h","sw_f","sw_b"): eq({V(n,0):1},0)
            else:
                g=t["growth_rates_monthly"][m]/100
                eq({V("sw_W",m):1,V("sw_W",m-1):-(1+g),V("sw_h",m):1/wsw,V("sw_f",m):1,V("sw_b",m):1,V("sw_A",m):dmin*hl,V("sw_A",m-1):-dmin*hl},0)
    def feedrow(m,tag):
        d={}
        if SF: d[V("sf_"+tag,m)]=1
        if OG: d[V("cr_"+tag,m)]=1
        if SW: d[V("sw_"+tag,m)]=SK
        if CS: d[V("cs_"+tag,m)]=1
        if SC: d[V("sc_"+tag,m)]=1
        return d
    anyfeed = SF or OG or SW or CS or SC
    inp=c["inputs"]
    for m in range(N):
        if anyfeed:
            if human:
                eq(feedrow(m,"f"), t["feed"].kcals[m]); eq(feedrow(m,"b"), t["biofuel"].kcals[m])
            else:
                ub(feedrow(m,"f"), t["max_feed_that_could_be_used"].kcals[m]); ub(feedrow(m,"b"), t["max_biofuel_that_could_be_used"].kcals[m])
                if m>0:
                    d=feedrow(m,"f"); 
                    for k,v in feedrow(m-1,"f").items(): d[k]=d.get(k,0)-v
                    ub(d,0)
                    d=feedrow(m,"b")
                    for k,v in feedrow(m-1,"b").items(): d[k]=d.get(k,0)-v
                    ub(d,0)
        # share caps and intake caps
        for on,pre,ratio,nm in ((SW,"sw",SK,"SEAWEED"),(SC,"sc",1,"METHANE_SCP"),(CS,"cs",1,"CELLULOSIC_SUGAR")):
            if not on: continue
            ub({V(pre+"_f",m):ratio}, inp["MAX_%s_AS_PERCENT_KCALS_FEED"%nm]/100*t["feed"].kcals[m])
            ub({V(pre+"_b",m):ratio}, inp["MAX_%s_AS_PERCENT_KCALS_BIOFUEL"%nm]/100*t["biofuel"].kcals[m])
            if human:
                fr=inp["MAX_%s_AS_PERCENT_KCALS_HUMANS"%nm]/100
                ub({V(pre+"_h",m):ratio}, fr*c["POP"]*c["KCALS_MONTHLY"]/1e9)
        if human:
            const=t["milk_kcals"][m]+t["greenhouse_crops"].kcals[m]+t["fish"].to_humans.kcals[m]
            cons={}
            if SF: cons[V("sf_h",m)]=1
            if OG: cons[V("cr_h",m)]=1
            if SW: cons[V("sw_h",m)]=SK
            if ME: cons[V("me",m)]=1
            if CS: cons[V("cs_h",m)]=1
            if SC: cons[V("sc_h",m)]=1
            # z <= consumed% = 100/BKN*(sum+const)
            d={zi:1}
            for k,v in cons.items(): d[k]=-100/BKN*v
            ub(d,100/BKN*const)
            for on,pre,ratio,nm in ((SW,"sw",SK,"SEAWEED"),(SC,"sc",1,"METHANE_SCP"),(CS,"cs",1,"CELLULOSIC_SUGAR")):
                if not on: continue
                fr=inp["MAX_%s_AS_PERCENT_KCALS_HUMANS"%nm]/100
                d={V(pre+"_h",m):ratio}
                for k,v in cons.items(): d[k]=d.get(k,0)-fr*v
                ub(d,fr*const)
        else:
            band=1e-4 if c["POP"]<1e7 else 1e-5
            for on,var,ratio,key in ((OG,"cr_h",1,"outdoor_crops"),(SF,"sf_h",1,"stored_food"),(ME,"me",1,"meat"),(SC,"sc_h",1,"methane_scp"),(CS,"cs_h",1,"cellulosic_sugar"),(SW,"sw_h",SK,"seaweed")):
                if not on: continue
                v=mhc[key].in_units_bil_kcals_thou_tons_thou_tons_per_month()[m].kcals
                ub({V(var,m):ratio},(1+band)*v); ub({V(var,m):-ratio},-(1-band)*v)
    cost=np.zeros(nv)
    if human: cost[zi]=-1
    else:
        for m in range(N):
            for k,v in feedrow(m,"f").items(): cost[k]-=2/3*v
            for k,v in feedrow(m,"b").items(): cost[k]-=1/3*v
    def mat(rows):
        A=lil_matrix((len(rows),nv))
        for i,d in enumerate(rows):
            for k,v in d.items(): A[i,k]=v
        return A.tocsr()
    res=linprog(cost,A_ub=mat(rows_ub) if rows_ub else None,b_ub=rhs_ub if rows_ub else None,A_eq=mat(rows_eq) if rows_eq else None,b_eq=rhs_eq if rows_eq else None,bounds=(0,None),method="highs")
    return res
