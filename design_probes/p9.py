import os,sys,time,io,contextlib; os.chdir("/repo"); sys.path.insert(0,"/tmp/probe")
import numpy as np, yaml
import src.optimizer.interpret_results as ir, src.scenarios.run_scenario as rs
ir.repo_root="/tmp/probe"; rs.repo_root="/tmp/probe"
from src.optimizer.optimizer import Optimizer
from src.scenarios.run_model_no_trade import ScenarioRunnerNoTrade
from reflp import ref_lp
cap=[]
o1=Optimizer.optimize_to_humans; o2=Optimizer.optimize_feed_to_animals
def w1(self,c,t):
    r=o1(self,c,t); cap.append(("to_humans",self.consts_for_optimizer,self.time_consts,None,r[3])); return r
def w2(self,c,t,mh):
    r=o2(self,c,t,mh); cap.append(("to_animals",self.consts_for_optimizer,self.time_consts,mh,r[3])); return r
Optimizer.optimize_to_humans=w1; Optimizer.optimize_feed_to_animals=w2
cfg=yaml.safe_load(open("/repo/scenarios/argentina.yaml"))
which=int(sys.argv[1]); name,sim=list(cfg["simulations"].items())[which]; sim=dict(sim); sim["NMONTHS"]=120
for kv in sys.argv[3:]:
    k,v=kv.split("="); sim[k]=v
for iso in sys.argv[2].split(","):
    cap.clear()
    with contextlib.redirect_stdout(io.StringIO()):
        try: ScenarioRunnerNoTrade().run_model_no_trade(title="t_"+iso,create_pptx_with_all_countries=False,show_country_figures=False,show_map_figures=False,add_map_slide_to_pptx=False,scenario_option=sim,countries_list=[iso],return_results=True)
        except BaseException as e: print(iso,"FAILED",repr(e)[:80])
    for kind,c,t,mh,z in cap:
        t0=time.time(); r=ref_lp(kind,c,t,mh,physical_meat=True); dt=time.time()-t0
        r2=ref_lp(kind,c,t,mh,physical_meat=False)
        zr=-r.fun if r.status==0 else float("nan"); zr2=-r2.fun if r2.status==0 else float("nan")
        print(iso,kind,"repo %.6f"%z,"ref(phys) %.6f"%zr,"ref(code-meat) %.6f"%zr2,"rel diff %.2e"%((z-zr)/max(1,abs(zr))),"status",r.status,"%.2fs"%dt)
