import os; os.chdir("/repo")
import numpy as np, pandas as pd, io, contextlib
from src.scenarios.run_scenario import ScenarioRunner
from src.optimizer.parameters import Parameters
tab=pd.read_csv("/repo/data/no_food_trade/computer_readable_combined.csv")
base=dict(scale="country",seasonality="country",grasses="country_nuclear_winter",crop_disruption="country_nuclear_winter",fish="nuclear_winter",waste="baseline_in_country",fat="not_required",protein="not_required",nutrition="catastrophe",intake_constraints="enabled",stored_food="baseline",ratio_stocks_untouched="baseline",shutoff="long_delayed_shutoff",cull="do_eat_culled",meat_strategy="reduce_breeding",scenario="no_resilient_foods")
def year1(R1,seas,iso):
    hb={"ZAF":1,"JPN":0,"PRK":0,"KOR":0}.get(iso,sum(seas[:4]))
    after_nw=max(0,R1-hb)
    if after_nw<=0: return 0.0
    after=1-hb
    return 1.0 if after<0.25 else after_nw/after
worst={}
for N in (120,72):
  for _,row in tab.iterrows():
    iso=row.iso3
    with contextlib.redirect_stdout(io.StringIO()):
        c,t,l=ScenarioRunner().set_depending_on_option(dict(base,NMONTHS=N),country_data=row)
        out=Parameters().compute_parameters_first_round(c,t,l)
    tc=out[1]; m=np.arange(N)
    seas=np.array([row["seasonality_m%d"%i] for i in range(1,13)])
    R=[None]+[1+row["crop_reduction_year%d"%i] for i in range(1,11)]
    yr=np.where(m<8,1,np.minimum(10,2+(m-8)//12))
    ratio=np.array([year1(R[1],list(seas),iso) if y==1 else R[y] for y in yr])
    ratio=np.where(ratio<=0,np.round(ratio,8),ratio)
    ref=row.crop_kcals*(1-92/3898)*4e6/1e9*seas[(4+m)%12]*ratio*(1-row.distribution_loss_crops)
    got=tc["outdoor_crops"].production.kcals
    e=np.max(np.abs(got-ref)/max(1e-12,np.abs(ref).max()))
    worst["crops"]=max(worst.get("crops",0),e)
    # grass
    G=[None]+[1+row["grasses_reduction_year%d"%i] for i in range(1,11)]
    ny=N//12
    yrg=np.where(m<8,1,np.minimum(ny,2+(m-8)//12))
    refg=row.grasses_baseline/12*np.array([G[y] for y in yrg])*4e6/1e9/1e6*1e6
    # grass supplied to herd: captured via meat_and_dairy inside; compare through feed object not exposed -> skip, check fish & stored food & demand instead
    fishpct=l and tc["fish"].to_humans.kcals
    S=[row["stocks_kcals_"+k] for k in ("jan","feb","mar","apr","may","jun","jul","aug","sep","oct","nov","dec")]
    refsf=(S[3]*1.0-min(S)*1.0)*4e6/1e9*(1-row.distribution_loss_crops)
    gotsf=c and out[0]["stored_food"].initial_available.kcals
    worst["sf"]=max(worst.get("sf",0),abs(gotsf-refsf)/max(1e-12,abs(refsf)))
    fd=out[4].kcals; reff=np.where(m<3,row.feed_kcals/12*4e6/1e9,0); worst["feed"]=max(worst.get("feed",0),np.max(np.abs(fd-reff))/max(1e-12,reff.max()))
    bd=out[5].kcals; refb=np.where(m<2,row.biofuel_kcals/12*4e6/1e9,0); worst["bio"]=max(worst.get("bio",0),np.max(np.abs(bd-refb))/max(1e-12,refb.max()))
    assert len(got)==N and len(fd)==N
print("worst relative errors over",len(tab),"countries x 2 horizons:",worst)
