import os,sys,time; os.chdir("/repo")
import numpy as np, yaml
import src.optimizer.interpret_results as ir, src.scenarios.run_scenario as rs
ir.repo_root="/tmp/probe"; rs.repo_root="/tmp/probe"
from src.optimizer.optimizer import Optimizer
from src.scenarios.run_model_no_trade import ScenarioRunnerNoTrade
cap=[]
for name in ("optimize_to_humans","optimize_feed_to_animals"):
    orig=getattr(Optimizer,name)
    def mk(orig,name):
        def w(self,*a,**k):
            r=orig(self,*a,**k); cap.append((name,self,r)); return r
        return w
    setattr(Optimizer,name,mk(orig,name))
cfg=yaml.safe_load(open("/repo/scenarios/argentina.yaml"))
iso=sys.argv[1]; which=int(sys.argv[2])
name,sim=list(cfg["simulations"].items())[which]; sim=dict(sim); sim["NMONTHS"]=120
for kv in sys.argv[3:]:
    k,v=kv.split("="); sim[k]=v
ScenarioRunnerNoTrade().run_model_no_trade(title="probe",create_pptx_with_all_countries=False,show_country_figures=False,show_map_figures=False,add_map_slide_to_pptx=False,scenario_option=sim,countries_list=[iso],return_results=True)
val=lambda L: np.array([ (x.varValue if hasattr(x,"varValue") else x) for x in L],dtype=float)
for i,(nm,opt,(model,variables,mc,pf)) in enumerate(cap):
    c=opt.consts_for_optimizer; t=opt.time_consts
    w=1-c["MEAT_WASTE_RETAIL"]/100
    eaten=val(variables["meat_eaten"])/w
    sl=t["each_month_meat_slaughtered"].kcals
    over=np.cumsum(eaten)-np.cumsum(sl)
    print(i,nm,"pf",round(pf,3),"ADD_MEAT",c["ADD_MEAT"],"max cum meat overdraw",over.max().round(3),"at",over.argmax(),"total sl",sl.sum().round(1), "status", model.status)
    if c["ADD_OUTDOOR_GROWING"]:
        cons=val(variables["crops_food_consumed"]); prod=t["outdoor_crops"].production.kcals
        print("   crops max cum overdraw",(np.cumsum(cons)-np.cumsum(prod)).max().round(4), "storage min", val(variables["crops_food_storage"]).min())
    feed=val(variables["stored_food_feed"])+val(variables["crops_food_feed"]); sf=c["stored_food"].initial_available.kcals; use=val(variables["stored_food_to_humans"])/(1-c["STORED_FOOD_WASTE_RETAIL"]/100)+val(variables["stored_food_feed"])+val(variables["stored_food_biofuel"]); print("   SF initial",np.round(sf,2),"used",use.sum().round(2),"STORE",c["STORE_FOOD_BETWEEN_YEARS"]); print("   feed sum", feed.sum().round(2), "charged", t["feed"].kcals.sum().round(2))
