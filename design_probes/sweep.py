import os,sys,time,io,contextlib,json; os.chdir("/repo")
import numpy as np, yaml, pandas as pd, tempfile
scr=tempfile.mkdtemp(prefix="sweep_"); os.makedirs(scr+"/results")
import src.optimizer.interpret_results as ir, src.scenarios.run_scenario as rs
ir.repo_root=scr; rs.repo_root=scr
from src.scenarios.run_model_no_trade import ScenarioRunnerNoTrade
cfg=yaml.safe_load(open("/repo/scenarios/argentina.yaml"))
which=int(sys.argv[1]); shard=int(sys.argv[2]); nsh=int(sys.argv[3])
name,sim=list(cfg["simulations"].items())[which]; sim=dict(sim); sim["NMONTHS"]=120
for kv in sys.argv[4:]:
    k,v=kv.split("="); sim[k]=v
isos=list(pd.read_csv("/repo/data/no_food_trade/computer_readable_combined.csv").iso3)[shard::nsh]
out=[]
for iso in isos:
    t0=time.time()
    with contextlib.redirect_stdout(io.StringIO()):
        try:
            r=ScenarioRunnerNoTrade().run_model_no_trade(title="t",create_pptx_with_all_countries=False,show_country_figures=False,show_map_figures=False,add_map_slide_to_pptx=False,scenario_option=sim,countries_list=[iso],return_results=True)
            res=list(r[3].values())[0]; out.append((iso,"ok",round(res.percent_people_fed,3),round(time.time()-t0,2)))
        except BaseException as e:
            out.append((iso,"FAIL",type(e).__name__+":"+str(e)[:70],round(time.time()-t0,2)))
import shutil; shutil.rmtree(scr)
print(json.dumps(out))
