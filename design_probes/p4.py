import os,sys,time; os.chdir("/repo")
import src.optimizer.interpret_results as ir, src.scenarios.run_scenario as rs
ir.repo_root="/tmp/probe"; rs.repo_root="/tmp/probe"
from src.scenarios.run_scenario import ScenarioRunner
sim=dict(NMONTHS=120,crop_disruption="global_nuclear_winter",grasses="global_nuclear_winter",fish="nuclear_winter",seasonality="nuclear_winter_globally",scale="global",stored_food="baseline",nutrition="catastrophe",fat="not_required",protein="not_required",intake_constraints="enabled",scenario="all_resilient_foods",cull="do_eat_culled",meat_strategy="feed_only_ruminants",waste="tripled_prices_globally",shutoff="long_delayed_shutoff")
try:
    ScenarioRunner().set_depending_on_option(dict(sim,end_simulation_stocks_ratio="zero"))
    print("stale key accepted")
except AssertionError as e: print("stale key rejected:", e)
sim["ratio_stocks_untouched"]="zero"
r=ScenarioRunner(); c,t,l=r.set_depending_on_option(sim)
t0=time.time()
res=r.run_and_analyze_scenario(c,t,l,False,False,"_world",None,False,"world","WOR",title="probe_world")
print("WOR", res.percent_people_fed, time.time()-t0)
