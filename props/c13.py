"""C13 — scenario options mean what they say and are applied exactly once."""
import collections
import copy
import itertools
import random

import numpy as np

from vlib import env, workload

ASSUMPTIONS = [
    "specification table transcribed from scenarios/README.md and the setter docstrings: option value -> constants; ownership table: option family -> the constants it may change",
    "'rejected before any computation' = set_depending_on_option / run_model_no_trade raises AssertionError (or SystemExit for fat/protein 'required') while the Parameters / Optimizer / herd wrappers count zero evaluations",
    "head-count overrides are observed at AnimalModelBuilder.create_animal_objects (the table row the herd simulation is built from), by a wrapper that records the row and aborts the run",
]

REQUIRED = ["scale", "stored_food", "ratio_stocks_untouched", "shutoff", "waste", "nutrition", "intake_constraints", "seasonality", "grasses", "fish",
            "crop_disruption", "protein", "fat", "cull", "scenario", "meat_strategy"]
SHUTOFF = {"immediate": (0, 0, 100), "one_month_delayed_shutoff": (1, 1, 100), "short_delayed_shutoff": (2, 1, 100), "long_delayed_shutoff": (3, 2, 100),
           "continued": ("N", "N", 100), "continued_after_10_percent_fed": ("N", "N", 10), "long_delayed_shutoff_after_10_percent_fed": (12, 6, 10)}
STOCKS = {"zero": (True, 0), "no_stored_between_years": (False, 0), "baseline": (True, 1), "baseline_no_stored_between_years": (False, 1)}
FOODSET = {  # scenario -> (seaweed, scp, cs, greenhouses, relocation, more area)
    "no_resilient_foods": (0, 0, 0, 0, 0, 0), "seaweed": (1, 0, 0, 0, 0, 0), "methane_scp": (0, 1, 0, 0, 0, 0), "cellulosic_sugar": (0, 0, 1, 0, 0, 0),
    "industrial_foods": (0, 1, 1, 0, 0, 0), "relocated_crops": (0, 0, 0, 0, 1, 0), "greenhouse": (0, 0, 0, 1, 0, 0), "all_resilient_foods": (1, 1, 1, 1, 1, 0),
    "all_resilient_foods_and_more_area": (1, 1, 1, 1, 1, 1)}
YEARS = ["RATIO_CROPS_YEAR%d" % i for i in range(1, 12)]
GYEARS = ["RATIO_GRASSES_YEAR%d" % i for i in range(1, 12)]
OWN = {  # family -> keys (top level; "DELAY." prefix for nested) it may change
    "shutoff": {"DELAY.FEED_SHUTOFF_MONTHS", "DELAY.BIOFUEL_SHUTOFF_MONTHS", "MINIMUM_PERCENT_FED_BEFORE_NONHUMAN_CONSUMPTION_ALLOWED"},
    "stored_food": {"ADD_STORED_FOOD", "PERCENT_STORED_FOOD_TO_USE", "STORE_FOOD_BETWEEN_YEARS"},
    "ratio_stocks_untouched": {"STORE_FOOD_BETWEEN_YEARS", "RATIO_STOCKS_UNTOUCHED"},
    "waste": {"WASTE_DISTRIBUTION", "WASTE_RETAIL"},
    "nutrition": {"NUTRITION"},
    "intake_constraints": {"MAX_%s_AS_PERCENT_KCALS_%s" % (f, u) for f in ("SEAWEED", "CELLULOSIC_SUGAR", "METHANE_SCP") for u in ("HUMANS", "FEED", "BIOFUEL")},
    "seasonality": {"SEASONALITY"},
    "grasses": set(GYEARS),
    "crop_disruption": set(YEARS) | {"ADD_OUTDOOR_GROWING", "ROTATION_IMPROVEMENTS", "RATIO_CROPS_YEAR11", "RATIO_OF_CROP_YIELDS_FROM_VERY_BEGINNING"},
    "cull": {"ADD_MEAT", "ADD_MILK"},
    "meat_strategy": {"BREEDING_STRATEGY"},
    "scenario": {"ADD_SEAWEED", "ADD_METHANE_SCP", "ADD_CELLULOSIC_SUGAR", "ADD_GREENHOUSES", "OG_USE_BETTER_ROTATION", "RATIO_INCREASED_CROP_AREA",
                 "NUMBER_YEARS_TAKES_TO_REACH_INCREASED_AREA", "INDUSTRIAL_FOODS_SLOPE_MULTIPLIER", "DELAY.INDUSTRIAL_FOODS_MONTHS", "DELAY.SEAWEED_MONTHS",
                 "DELAY.GREENHOUSE_MONTHS", "GREENHOUSE_GAIN_PCT", "GREENHOUSE_AREA_MULTIPLIER", "ROTATION_IMPROVEMENTS", "INITIAL_SEAWEED_FRACTION",
                 "SEAWEED_NEW_AREA_FRACTION", "SEAWEED_MAX_AREA_FRACTION", "INITIAL_BUILT_SEAWEED_FRACTION", "DELAY.ROTATION_CHANGE_IN_MONTHS"},
    "NMONTHS": {"NMONTHS", "DELAY.FEED_SHUTOFF_MONTHS", "DELAY.BIOFUEL_SHUTOFF_MONTHS"},
    "fish": set(),  # fish writes time_consts, checked separately
}
SPECIES = ["chicken", "rabbit", "duck", "goose", "turkey", "other_rodents", "pig", "meat_goat", "meat_sheep", "camelids", "meat_cattle", "meat_camel",
           "meat_buffalo", "mule", "horse", "asses", "milk_sheep", "milk_cattle", "milk_goat", "milk_camel", "milk_buffalo"]


def gen_cases(tier, seed):
    rnd = random.Random(1300 + seed)
    isos = workload.all_isos()
    hostile = workload.rotate([i for i in workload.HOSTILE if i in isos], seed)
    nrow = 4 if tier == "quick" else 20
    if tier == "thorough":
        hostile = isos  # every row of the table
    rows = list(hostile) if tier == "thorough" else ((hostile[:nrow - 1] + ["SWT"]) if "SWT" not in hostile[:nrow - 1] else hostile[:nrow])
    # the three countries whose options the repository rewrites on purpose are always exercised
    rows = rows + [i for i in ("SLV", "ALB", "ECU") if i not in rows]
    cases = []
    for iso in rows + ["WOR"]:
        cases.append({"kind": "values", "iso": iso, "gen_seed": seed, "id": "values/%s" % iso})
        cases.append({"kind": "rejections", "iso": iso, "gen_seed": seed, "id": "rejections/%s" % iso})
        cases.append({"kind": "overrides", "iso": iso, "gen_seed": seed * 13 + 1, "id": "overrides/%s" % iso})
    for k in range(4 if tier == "quick" else 16):
        cases.append({"kind": "setter_pairs", "shard": k, "nshards": 4 if tier == "quick" else 16, "id": "setter_pairs#%d" % k})
    sp_rows = (["SWT", "ARG", "IND", "MNG"] if tier == "quick" else ["SWT"] + rnd.sample([i for i in isos if i != "SWT"], 60))
    for iso in sp_rows:
        cases.append({"kind": "head_overrides", "iso": iso, "species": SPECIES, "gen_seed": seed, "id": "heads/%s" % iso})
    for k in range(3 if tier == "quick" else 40):
        iso = (["ARG", "FRA", "NZL", "USA", "BRA"][(k + seed) % 5] if k % 2 == 0 else rnd.choice(isos))
        cases.append({"kind": "head_override_every_round", "iso": iso, "species": ["meat_cattle", "milk_cattle", "chicken", "pig", "meat_sheep"][(k + seed) % 5], "value": [40000000, 1000, 250000][k % 3],
                      "shutoff": ["continued", "long_delayed_shutoff", "continued_after_10_percent_fed"][k % 3], "NMONTHS": [48, 72][k % 2],
                      "scenario": ["no_resilient_foods", "all_resilient_foods"][k % 2], "id": "heads_every_round#%d/%s" % (k, iso)})
    # the real per-country dispatcher (which prepares each row before the option handling sees it) over every row of the table
    for k in range(2 if tier == "quick" else 12):
        o = workload.base_country(NMONTHS=[120, 72, 48][k % 3])
        if k % 2:
            for f, vals in workload.families("country").items():
                if f not in ("scale", "NMONTHS"):
                    o[f] = rnd.choice(vals)
            if k % 4 == 1:
                o.update(crop_disruption="country_nuclear_winter", grasses="country_nuclear_winter")
        cases.append({"kind": "through_runner", "iso": "ALL", "opts": o, "id": "through_runner#%d" % k})
        # ... and the same option vector written into a scenario file and run through the yaml entry point, the file also carrying
        # a key that is not an option (baseline_USA.yaml ships with a dead 'buffer:' line, the former name of ratio_stocks_untouched)
        o2 = dict(o, buffer=[v for v in workload.families("country")["ratio_stocks_untouched"] if v != o["ratio_stocks_untouched"]][k % 3])
        cases.append({"kind": "through_runner", "iso": "ALL", "opts": o2, "via_yaml": True, "id": "through_yaml#%d" % k})
    for iso in (["ARG", "LUX"] if tier == "quick" else ["ARG", "LUX", "SWT", "USA", "DJI", "NZL"]):
        cases.append({"kind": "end_to_end_rejection", "iso": iso, "gen_seed": seed, "id": "e2e/%s" % iso})
    return cases


def flat(c):
    """Flatten constants for diffing (one nesting level for DELAY; dict/array values compared by repr)."""
    out = {}
    for k, v in c.items():
        if k == "DELAY" and isinstance(v, dict):
            for k2, v2 in v.items():
                out["DELAY." + k2] = v2
        else:
            out[k] = v
    return out


def differs(a, b):
    try:
        if isinstance(a, (list, tuple, np.ndarray)) or isinstance(b, (list, tuple, np.ndarray)):
            return not np.array_equal(np.asarray(a, dtype=object), np.asarray(b, dtype=object))
        if isinstance(a, dict) or isinstance(b, dict):
            return repr(a) != repr(b)
        if isinstance(a, float) and isinstance(b, float) and np.isnan(a) and np.isnan(b):
            return False
        return a != b
    except Exception:
        return repr(a) != repr(b)


def diff(c1, c2):
    f1, f2 = flat(c1), flat(c2)
    return {k for k in set(f1) | set(f2) if (k not in f1) or (k not in f2) or differs(f1[k], f2[k])}


class Ctx:
    def __init__(self, iso):
        import pandas as pd

        self.iso = iso
        self.glob = iso == "WOR"
        self.row = None
        if not self.glob:
            tab = pd.read_csv(env.REPO + "/data/no_food_trade/computer_readable_combined.csv")
            self.row = tab[tab.iso3 == iso].iloc[0]
        self.viol = []
        self.seen = collections.Counter()
        self.n = collections.Counter()

    def bad(self, mech, msg, **d):
        self.seen[mech] += 1
        if self.seen[mech] <= 3:
            d["iso"] = self.iso
            self.viol.append({"mech": mech, "msg": "%s: %s" % (self.iso, msg), "data": d})

    def base(self):
        if self.glob:
            o = [x for x in workload.manuscript_presets() if x[0] == "ms:fig3:example_scenario"][0][1]
            return dict(o)
        return workload.base_country()

    def call(self, opts):
        from src.scenarios.run_scenario import ScenarioRunner

        row = None if self.glob else self.row.copy()
        return ScenarioRunner().set_depending_on_option(opts, country_data=row)


def spec_check(cx, fam, val, opts, c, t):
    """The constants the documentation describes for (family, value)."""
    N = opts["NMONTHS"]
    row = cx.row

    def expect(key, got, want, approx=False):
        ok = (abs(got - want) <= 1e-12 * max(1.0, abs(want))) if approx else (got == want)
        if not ok:
            cx.bad("option_value_sets_wrong_constant", "%s=%s: %s is %r, documented %r" % (fam, val, key, got, want), family=fam, value=val, key=key)

    if fam == "shutoff":
        f, b, T = SHUTOFF[val]
        # three (country, scenario) combinations are rewritten to an immediate shut-off by the repository on purpose
        if c["DELAY"]["FEED_SHUTOFF_MONTHS"] == 0 and cx.iso in ("SLV", "ALB", "ECU") and val != "immediate":
            return
        expect("FEED_SHUTOFF_MONTHS", c["DELAY"]["FEED_SHUTOFF_MONTHS"], N if f == "N" else f)
        expect("BIOFUEL_SHUTOFF_MONTHS", c["DELAY"]["BIOFUEL_SHUTOFF_MONTHS"], N if b == "N" else b)
        expect("MINIMUM_PERCENT_FED", c["MINIMUM_PERCENT_FED_BEFORE_NONHUMAN_CONSUMPTION_ALLOWED"], T)
    elif fam == "stored_food":
        expect("ADD_STORED_FOOD", c["ADD_STORED_FOOD"], val == "baseline")
        expect("PERCENT_STORED_FOOD_TO_USE", c["PERCENT_STORED_FOOD_TO_USE"], 100 if val == "baseline" else 0)
    elif fam == "ratio_stocks_untouched":
        s, r = STOCKS[val]
        expect("STORE_FOOD_BETWEEN_YEARS", c["STORE_FOOD_BETWEEN_YEARS"], s)
        expect("RATIO_STOCKS_UNTOUCHED", c["RATIO_STOCKS_UNTOUCHED"], r)
    elif fam == "waste":
        if val == "zero":
            expect("WASTE_RETAIL", c["WASTE_RETAIL"], 0)
            for k, v in c["WASTE_DISTRIBUTION"].items():
                expect("WASTE_DISTRIBUTION." + k, v, 0)
        elif val.endswith("_in_country"):
            col = {"tripled_prices_in_country": "retail_waste_price_triple", "doubled_prices_in_country": "retail_waste_price_double", "baseline_in_country": "retail_waste_baseline"}[val]
            expect("WASTE_RETAIL", c["WASTE_RETAIL"], row[col] * 100, True)
            for k, col2 in (("SUGAR", "distribution_loss_sugar"), ("CROPS", "distribution_loss_crops"), ("MEAT", "distribution_loss_meat"), ("MILK", "distribution_loss_dairy"),
                            ("SEAFOOD", "distribution_loss_seafood"), ("SEAWEED", "distribution_loss_seafood")):
                expect("WASTE_DISTRIBUTION." + k, c["WASTE_DISTRIBUTION"][k], row[col2] * 100, True)
        else:
            expect("WASTE_RETAIL", c["WASTE_RETAIL"], {"tripled_prices_globally": 6.08, "doubled_prices_globally": 10.6, "baseline_globally": 24.98}[val])
    elif fam == "nutrition":
        want = (2100, 61.7, 59.5) if val == "baseline" else (2100, 47, 51)
        got = (c["NUTRITION"]["KCALS_DAILY"], c["NUTRITION"]["FAT_DAILY"], c["NUTRITION"]["PROTEIN_DAILY"])
        expect("NUTRITION", got, want)
    elif fam == "intake_constraints":
        hum = (10, 40, 50) if val == "enabled" else (100, 100, 100)
        got = tuple(c["MAX_%s_AS_PERCENT_KCALS_HUMANS" % f] for f in ("SEAWEED", "CELLULOSIC_SUGAR", "METHANE_SCP"))
        expect("MAX_*_HUMANS", got, hum)
        expect("MAX_*_FEED", tuple(c["MAX_%s_AS_PERCENT_KCALS_FEED" % f] for f in ("SEAWEED", "CELLULOSIC_SUGAR", "METHANE_SCP")), (10, 10, 43))
        expect("MAX_*_BIOFUEL", tuple(c["MAX_%s_AS_PERCENT_KCALS_BIOFUEL" % f] for f in ("SEAWEED", "CELLULOSIC_SUGAR", "METHANE_SCP")), (10, 100, 100))
    elif fam == "seasonality":
        s = [float(x) for x in c["SEASONALITY"]]
        if val == "no_seasonality":
            expect("SEASONALITY", s, [1 / 12] * 12)
        elif val == "country":
            expect("SEASONALITY", s, [float(row["seasonality_m%d" % i]) for i in range(1, 13)])
        if len(s) != 12 or abs(sum(s) - 1) > 1e-3:
            cx.bad("option_value_sets_wrong_constant", "%s=%s: seasonality has %d shares summing to %.6f" % (fam, val, len(s), sum(s)), family=fam, value=val)
    elif fam == "grasses":
        for i in range(1, 11):
            want = {"baseline": 1, "all_crops_die_instantly": 0}.get(val)
            if val == "country_nuclear_winter":
                want = 1 + row["grasses_reduction_year%d" % i]
            if want is not None:
                expect("RATIO_GRASSES_YEAR%d" % i, c["RATIO_GRASSES_YEAR%d" % i], want, True)
    elif fam == "crop_disruption":
        for i in range(1, 11):
            want = {"zero": 1, "all_crops_die_instantly": 0}.get(val)
            if val == "country_nuclear_winter":
                want = 1 + row["crop_reduction_year%d" % i]
            if want is not None:
                expect("RATIO_CROPS_YEAR%d" % i, c["RATIO_CROPS_YEAR%d" % i], want, True)
    elif fam == "fish":
        pct = np.asarray(t["FISH_PERCENT_MONTHLY"], float)
        if len(pct) < N:
            cx.bad("option_value_sets_wrong_constant", "fish=%s: %d monthly percentages for %d months" % (val, len(pct), N), family=fam, value=val)
        elif val == "zero" and pct[:N].max() != 0:
            cx.bad("option_value_sets_wrong_constant", "fish=zero: percentages not zero", family=fam, value=val)
        elif val == "baseline" and not np.all(pct[:N] == 100):
            cx.bad("option_value_sets_wrong_constant", "fish=baseline: percentages not 100", family=fam, value=val)
        elif val == "nuclear_winter" and (pct[:N].max() > 100 + 1e-9 or pct[:N].min() < 0):
            cx.bad("option_value_sets_wrong_constant", "fish=nuclear_winter: percentages outside 0..100", family=fam, value=val)
    elif fam == "cull":
        expect("ADD_MEAT", c["ADD_MEAT"], val == "do_eat_culled")
    elif fam == "meat_strategy":
        expect("BREEDING_STRATEGY", c["BREEDING_STRATEGY"], {"reduce_breeding": "reduced", "baseline_breeding": "baseline", "feed_only_ruminants": "feed_only_ruminants"}[val])
    elif fam == "scenario":
        sw, scp, cs, gh, rel, area = FOODSET[val]
        if sw:  # (without the scenario a landlocked country row switches seaweed off by itself)
            expect("ADD_SEAWEED", bool(c["ADD_SEAWEED"]), True)
        elif cx.glob or float(row["initial_seaweed_fraction"]) != 0:
            expect("ADD_SEAWEED", bool(c["ADD_SEAWEED"]), False)
        expect("ADD_METHANE_SCP", bool(c["ADD_METHANE_SCP"]), bool(scp))
        expect("ADD_CELLULOSIC_SUGAR", bool(c["ADD_CELLULOSIC_SUGAR"]), bool(cs))
        expect("ADD_GREENHOUSES", bool(c["ADD_GREENHOUSES"]), bool(gh))
        expect("OG_USE_BETTER_ROTATION", bool(c["OG_USE_BETTER_ROTATION"]), bool(rel))
        expect("RATIO_INCREASED_CROP_AREA>1", c["RATIO_INCREASED_CROP_AREA"] > 1, bool(area))
    elif fam == "NMONTHS":
        expect("NMONTHS", c["NMONTHS"], val)


ROW_MAP = {  # scale: country -> the constants are this country's row of the input table
    "POP": "population", "BASELINE_CROP_KCALS": "crop_kcals", "BASELINE_CROP_FAT": "crop_fat", "BASELINE_CROP_PROTEIN": "crop_protein",
    "BIOFUEL_KCALS": "biofuel_kcals", "BIOFUEL_FAT": "biofuel_fat", "BIOFUEL_PROTEIN": "biofuel_protein", "FEED_KCALS": "feed_kcals", "FEED_FAT": "feed_fat",
    "FEED_PROTEIN": "feed_protein", "INITIAL_MILK_CATTLE": "dairy_cows", "INIT_SMALL_ANIMALS": "small_animals", "INIT_MEDIUM_ANIMALS": "medium_animals",
    "INIT_LARGE_ANIMALS_WITH_MILK_COWS": "large_animals", "SCP_GLOBAL_PRODUCTION_FRACTION": "percent_of_global_capex", "CS_GLOBAL_PRODUCTION_FRACTION": "percent_of_global_production",
    "INITIAL_SEAWEED_FRACTION": "initial_seaweed_fraction", "SEAWEED_NEW_AREA_FRACTION": "new_area_fraction", "SEAWEED_MAX_AREA_FRACTION": "max_area_fraction",
    "INITIAL_BUILT_SEAWEED_FRACTION": "initial_built_fraction", "INITIAL_CROP_AREA_FRACTION": "fraction_crop_area", "FISH_DRY_CALORIC_ANNUAL": "aq_kcals",
    "FISH_FAT_TONS_ANNUAL": "aq_fat", "FISH_PROTEIN_TONS_ANNUAL": "aq_protein", "TONS_MILK_ANNUAL": "dairy", "TONS_BEEF_ANNUAL": "beef",
    "MILK_YIELD_KG_PER_MILK_BEARING_ANIMAL_PER_YEAR": "milk_yield_kg_per_milk_bearing_animal_per_year", "KG_MEAT_PER_PIG": "kg_meat_per_pig", "KG_MEAT_PER_CHICKEN": "kg_meat_per_chicken",
}


def row_mapping(cx, c):
    row = cx.row
    n = 0
    for key, col in ROW_MAP.items():
        n += 1
        if float(c[key]) != float(row[col]):
            cx.bad("country_constant_not_from_country_row", "scale=country: %s is %r, the country row has %s = %r" % (key, c[key], col, row[col]), key=key, column=col)
    for key, want in (("HUMAN_INEDIBLE_FEED_BASELINE_MONTHLY", row["grasses_baseline"] / 12), ("TONS_CHICKEN_AND_PORK_ANNUAL", row["chicken"] + row["pork"]),
                      ("INITIAL_CROP_AREA_HA", row["crop_area_1000ha"] * 1000)):
        n += 1
        if abs(float(c[key]) - float(want)) > 1e-12 * max(1.0, abs(float(want))):
            cx.bad("country_constant_not_from_country_row", "scale=country: %s is %r, the country row gives %r" % (key, c[key], want), key=key)
    for mon in ("jan", "feb", "mar", "apr", "may", "jun", "jul", "aug", "sep", "oct", "nov", "dec"):
        n += 1
        if float(c["END_OF_MONTH_STOCKS"][mon.upper()]) != float(row["stocks_kcals_" + mon]):
            cx.bad("country_constant_not_from_country_row", "scale=country: END_OF_MONTH_STOCKS[%s] is %r, the row has %r" % (mon.upper(), c["END_OF_MONTH_STOCKS"][mon.upper()], row["stocks_kcals_" + mon]), key="END_OF_MONTH_STOCKS." + mon)
    g = {k: v for k, v in c["SEAWEED_GROWTH_PER_DAY"].items()}
    for k, v in g.items():
        n += 1
        if float(v) != float(row["seaweed_growth_per_day_" + k]):
            cx.bad("country_constant_not_from_country_row", "scale=country: seaweed growth %s is %r, the row has %r" % (k, v, row["seaweed_growth_per_day_" + k]), key="SEAWEED_GROWTH_PER_DAY." + k)
    if c["COUNTRY_CODE"] != row["iso3"]:
        cx.bad("country_constant_not_from_country_row", "COUNTRY_CODE %r for row %r" % (c["COUNTRY_CODE"], row["iso3"]), key="COUNTRY_CODE")
    cx.n["row_mapping_cells"] += n


def values(case):
    cx = Ctx(case["iso"])
    base = cx.base()
    fam = workload.families("global" if cx.glob else "country")
    try:
        c0, t0, _ = cx.call(copy.deepcopy(base))
    except BaseException as e:  # noqa: BLE001
        cx.bad("documented_option_rejected", "base option vector rejected: %r" % (e,), family="base")
        return cx
    if not cx.glob:
        row_mapping(cx, c0)
    for f, vals in fam.items():
        for v in vals:
            o = copy.deepcopy(base)
            o[f] = v
            before = copy.deepcopy(o)
            cx.n["values"] += 1
            try:
                c, t, loader = cx.call(o)
            except BaseException as e:  # noqa: BLE001
                if isinstance(e, KeyboardInterrupt):
                    raise
                cx.bad("documented_option_rejected", "%s=%s rejected: %r" % (f, v, e), family=f, value=v)
                continue
            if o != before:
                cx.bad("caller_options_modified", "%s=%s: option dictionary changed by the call: %s" % (f, v, {k: (before.get(k), o.get(k)) for k in set(o) | set(before) if o.get(k) != before.get(k)}), family=f, value=v)
            try:
                loader.check_all_set()
            except AssertionError:
                cx.bad("family_left_unset", "%s=%s: not every option family is marked as set" % (f, v), family=f, value=v)
            spec_check(cx, f, v, o, c, t)
            # exactly: only constants owned by this family differ from the base run
            if v != base.get(f):
                extra = diff(c0, c) - OWN.get(f, set())
                if f == "scenario":
                    extra -= {"DELAY"}
                if cx.iso in ("SLV", "ALB", "ECU"):
                    # the repository deliberately rewrites the shut-off of three known-bad (country, option) combinations to "immediate"
                    extra -= OWN["shutoff"]
                if extra:
                    cx.bad("option_changes_unrelated_constant", "%s: %s -> %s also changes %s" % (f, base.get(f), v, sorted(extra)[:6]), family=f, value=v, keys=sorted(extra)[:10])
    return cx


def rejections(case):
    cx = Ctx(case["iso"])
    base = cx.base()
    fam = workload.families("global" if cx.glob else "country")
    counters0 = None
    from vlib import capture

    capture.install()
    counters0 = dict(capture.COUNTERS)
    for f in list(fam) + ["fat", "protein", "scale"]:
        if f == "NMONTHS":
            continue
        for bad_value in ("", "Baseline ", "no_such_value", None, 0):
            o = copy.deepcopy(base)
            o[f] = bad_value
            cx.n["unknown_values"] += 1
            try:
                cx.call(o)
                cx.bad("unknown_value_accepted", "%s=%r accepted" % (f, bad_value), family=f, value=repr(bad_value))
            except (AssertionError, SystemExit):
                pass
            except BaseException as e:  # noqa: BLE001
                if isinstance(e, KeyboardInterrupt):
                    raise
                cx.n["rejected_by_other_exception"] += 1
                cx.bad("unknown_value_not_rejected_cleanly", "%s=%r raised %s instead of a rejection: %s" % (f, bad_value, type(e).__name__, str(e)[:60]), family=f, value=repr(bad_value))
    for v in ("required",):
        for f in ("fat", "protein"):
            o = copy.deepcopy(base)
            o[f] = v
            cx.n["unsupported_values"] += 1
            try:
                cx.call(o)
                cx.bad("unsupported_value_accepted", "%s=required accepted" % f, family=f)
            except (AssertionError, SystemExit):
                pass
    for f in REQUIRED:
        o = copy.deepcopy(base)
        del o[f]
        cx.n["missing_keys"] += 1
        try:
            cx.call(o)
            cx.bad("missing_option_accepted", "option vector without %r accepted" % f, family=f)
        except (AssertionError, SystemExit):
            pass
        except BaseException as e:  # noqa: BLE001
            if isinstance(e, KeyboardInterrupt):
                raise
            cx.bad("missing_option_not_rejected_cleanly", "missing %r raised %s" % (f, type(e).__name__), family=f)
    # scale-specific values given to the other scale
    other = workload.families("country" if cx.glob else "global")
    for f in ("waste", "grasses", "crop_disruption"):
        for v in other[f]:
            if v in fam[f]:
                continue
            o = copy.deepcopy(base)
            o[f] = v
            cx.n["wrong_scale_values"] += 1
            try:
                cx.call(o)
                cx.n["wrong_scale_accepted"] += 1
            except (AssertionError, SystemExit, TypeError, KeyError):
                pass
    if cx.glob:
        o = copy.deepcopy(base)
        o["grasses"] = "all_crops_die_instantly"
        try:
            cx.call(o)
            cx.n["grasses_all_die_global_accepted"] += 1
        except AssertionError:
            cx.n["grasses_all_die_global_rejected"] += 1
    for k in ("Parameters.compute_parameters_first_round", "Optimizer.optimize_to_humans", "CalculateFeedAndMeat.__init__"):
        if capture.COUNTERS.get(k, 0) != counters0.get(k, 0):
            cx.bad("computation_before_rejection", "%s ran while rejecting options" % k, counter=k)
    return cx


def overrides(case):
    cx = Ctx(case["iso"])
    rnd = random.Random(case["gen_seed"])
    base = cx.base()
    c0, t0, _ = cx.call(copy.deepcopy(base))
    f0 = flat(c0)

    def run(extra):
        o = copy.deepcopy(base)
        o.update(extra)
        before = copy.deepcopy(o)
        c, t, _ = cx.call(o)
        if o != before:
            cx.bad("caller_options_modified", "override %s: option dictionary changed by the call" % list(extra), override=list(extra))
        return c

    # (numbers as python / numpy numbers and as the strings a yaml or a web form may deliver, with and without a decimal point)
    for T in (0, 5, 37.5, 100, "42", "37.5", "0.0", "100.0", np.float64(12.5), np.int64(7)):
        cx.n["overrides"] += 1
        c = run({"MINIMUM_PERCENT_FED_BEFORE_NONHUMAN_CONSUMPTION_ALLOWED": T})
        d = diff(c0, c)
        if c["MINIMUM_PERCENT_FED_BEFORE_NONHUMAN_CONSUMPTION_ALLOWED"] != float(T) or d - {"MINIMUM_PERCENT_FED_BEFORE_NONHUMAN_CONSUMPTION_ALLOWED"}:
            cx.bad("override_wrong", "minimum percent fed override %r: value %r, other keys changed %s" % (T, c["MINIMUM_PERCENT_FED_BEFORE_NONHUMAN_CONSUMPTION_ALLOWED"], sorted(d)[:5]), override="MINIMUM_PERCENT_FED")
    for r_ in (0, 0.25, 1, "0.5", np.float64(0.75)):
        cx.n["overrides"] += 1
        c = run({"RATIO_STOCKS_UNTOUCHED": r_})
        d = diff(c0, c)
        if c["RATIO_STOCKS_UNTOUCHED"] != float(r_) or d - {"RATIO_STOCKS_UNTOUCHED"}:
            cx.bad("override_wrong", "stocks-untouched override %r: value %r, other keys %s" % (r_, c["RATIO_STOCKS_UNTOUCHED"], sorted(d)[:5]), override="RATIO_STOCKS_UNTOUCHED")
    for key, years in (("CROP_PRODUCTION_MULTIPLIER", YEARS), ("GRASSES_PRODUCTION_MULTIPLIER", GYEARS)):
        for k in (0, 0.5, 1, 2.5, 10, "2.5", np.float64(0.3)):
            cx.n["overrides"] += 1
            c = run({key: k})
            k = float(k)
            d = diff(c0, c)
            present = [y for y in years if y in f0]
            wrong = [y for y in present if abs(c[y] - f0[y] * k) > 1e-12 * max(1.0, abs(f0[y] * k))]
            extra = d - set(years)
            if wrong or extra:
                cx.bad("override_wrong", "%s=%s: years not multiplied %s, other keys changed %s" % (key, k, wrong[:3], sorted(extra)[:5]), override=key)
            if len(present) < 10:
                cx.bad("override_wrong", "%s: fewer than 10 yearly ratios present" % key, override=key)
    if not cx.glob:
        for kg in (100, 269.7, 350.5):
            cx.n["overrides"] += 1
            c = run({"kg_meat_per_large_animal": kg})
            d = diff(c0, c)
            if c.get("kg_meat_per_large_animal") != float(kg) or d - {"kg_meat_per_large_animal"}:
                cx.bad("override_wrong", "kg_meat_per_large_animal=%s: value %r, other keys %s" % (kg, c.get("kg_meat_per_large_animal"), sorted(d)[:5]), override="kg_meat_per_large_animal")
            from src.food_system.food import Food
            from src.food_system.meat_and_dairy import MeatAndDairy

            Food.conversions.set_nutrition_requirements(2100, 47, 51, False, False, c["POP"])
            # every round builds its own meat/dairy object from the same constants: the override must reach each of them
            for nth in (1, 2, 3):
                if MeatAndDairy(c).KG_PER_LARGE_ANIMAL != float(kg):
                    cx.bad("override_not_effective", "kg_meat_per_large_animal=%s does not reach the meat yield table built for round %d" % (kg, nth), override="kg_meat_per_large_animal", round=nth)
                    break
        for sp in rnd.sample(SPECIES, 6):
            cx.n["overrides"] += 1
            c = run({sp + "_head": 12345})
            d = diff(c0, c)
            if c.get(sp + "_head_start") != 12345 or d - {sp + "_head_start"}:
                cx.bad("override_wrong", "%s_head: key %s_head_start=%r, other keys %s" % (sp, sp, c.get(sp + "_head_start"), sorted(d)[:5]), override=sp + "_head")
    # several overrides of different kinds in one dictionary, in every sort of key order (before or after the option families,
    # the meat-weight key before or after the head counts): dictionaries that compare equal must give the same constants
    if not cx.glob:
        for trial in range(8):
            sps = rnd.sample(SPECIES, rnd.choice([1, 2, 3]))
            items = [(sp + "_head", 1000 + 111 * j + trial) for j, sp in enumerate(sps)] + [("kg_meat_per_large_animal", 300.0 + trial)]
            if rnd.random() < 0.6:
                items.append(("MINIMUM_PERCENT_FED_BEFORE_NONHUMAN_CONSUMPTION_ALLOWED", 40 + trial))
            if rnd.random() < 0.4:
                items.append(("RATIO_STOCKS_UNTOUCHED", 0.25))
            rnd.shuffle(items)
            if trial % 2 == 0:
                # the meat weight first
                items.sort(key=lambda kv: kv[0] != "kg_meat_per_large_animal")
            front = rnd.random() < 0.5
            o = dict(items) if front else {}
            o.update(copy.deepcopy(base))
            o.update(dict(items))
            before = copy.deepcopy(o)
            cx.n["overrides"] += 1
            cx.n["combined_overrides"] += 1
            c, t, _ = cx.call(o)
            if o != before:
                cx.bad("caller_options_modified", "combined overrides %s: option dictionary changed by the call" % [k for k, _ in items], override="combined")
            want = {}
            for k, v in items:
                want[k + "_start" if k.endswith("_head") else k] = float(v) if not k.endswith("_head") else v
            got = {k: c.get(k) for k in want}
            d = diff(c0, c)
            if any(got[k] != want[k] for k in want) or d - set(want):
                cx.bad("override_wrong", "overrides given together in the key order %s (%s the option families): constants %s, expected %s; other keys changed %s" % (
                    [k for k, _ in items], "before" if front else "after", {k: got[k] for k in want if got[k] != want[k]}, {k: want[k] for k in want if got[k] != want[k]}, sorted(d - set(want))[:4]),
                    override="combined", order=[k for k, _ in items])
    # out-of-range numeric overrides must be rejected
    for extra in ({"MINIMUM_PERCENT_FED_BEFORE_NONHUMAN_CONSUMPTION_ALLOWED": 101}, {"MINIMUM_PERCENT_FED_BEFORE_NONHUMAN_CONSUMPTION_ALLOWED": -1},
                  {"RATIO_STOCKS_UNTOUCHED": 1.5}, {"CROP_PRODUCTION_MULTIPLIER": 11}, {"GRASSES_PRODUCTION_MULTIPLIER": -0.1}):
        cx.n["out_of_range_overrides"] += 1
        try:
            run(extra)
            cx.bad("out_of_range_override_accepted", "%s accepted" % extra, override=list(extra)[0])
        except AssertionError:
            pass
    return cx


class _Captured(Exception):
    pass


def head_overrides(case):
    from props import herd
    from src.food_system import animal_populations as ap

    cx = Ctx(case["iso"])
    seenrow = {}
    orig = ap.AnimalModelBuilder.create_animal_objects

    def w(df_row, df_attr):
        seenrow["row"] = df_row.copy()
        raise _Captured()

    ap.AnimalModelBuilder.create_animal_objects = w
    try:
        def table_row(constants):
            seenrow.clear()
            try:
                ap.main(case["iso"], herd.make_food([0.0] * 12), herd.make_food([0.0] * 12), "baseline", constants, remove_first_month=0)
            except _Captured:
                pass
            return seenrow.get("row")

        base_row = table_row(None)
        if base_row is None:
            cx.bad("head_table_not_observed", "create_animal_objects not reached")
            return cx
        for sp in case["species"]:
            col = sp + "_head"
            val = int(float(base_row[col]) if np.isfinite(float(base_row[col])) else 0) + 777
            # the dispatcher turns option '<species>_head' into constants['<species>_head_start']
            row = table_row({col + "_start": val})
            cx.n["head_overrides"] += 1
            if row is None:
                cx.bad("head_table_not_observed", "%s: create_animal_objects not reached" % col, species=sp)
                continue
            changed = [k for k in base_row.index if differs(base_row[k], row[k]) and not (isinstance(base_row[k], float) and np.isnan(base_row[k]) and isinstance(row[k], float) and np.isnan(row[k]))]
            added = [k for k in row.index if k not in base_row.index]
            if row.get(col) != val or changed != [col] or added:
                mech = "head_override_wrong"
                stripped = (col + "_start").strip("_start")
                if stripped != col and stripped in added:
                    mech = "head_override_key_mangled_by_strip"
                elif case["iso"] == "SWT" and not changed and not added:
                    mech = "head_override_lost_for_aliased_country_code"
                cx.bad(mech, "%s=%d: herd table row has %s=%r, changed columns %s, new columns %s" % (col, val, col, row.get(col), changed[:4], added[:4]), species=sp, column=col)
        # several overrides in one option dictionary, in an order that is not alphabetical: every value in its own column
        rnd = random.Random(case.get("gen_seed", 0) * 31 + len(case["iso"]))
        for trial in range(6):
            sps = rnd.sample(case["species"], rnd.choice([2, 3, 4]))
            if sps == sorted(sps):
                sps.reverse()
            consts = {}
            for j, sp in enumerate(sps):
                consts[sp + "_head_start"] = 1000 + 137 * j + trial
            row = table_row(consts)
            cx.n["multi_head_overrides"] += 1
            if row is None:
                cx.bad("head_table_not_observed", "several overrides %s: create_animal_objects not reached" % sps)
                continue
            wrong = {sp: row.get(sp + "_head") for sp in sps if row.get(sp + "_head") != consts[sp + "_head_start"]}
            others = [k for k in base_row.index if k not in [sp + "_head" for sp in sps] and differs(base_row[k], row[k])
                      and not (isinstance(base_row[k], float) and np.isnan(base_row[k]) and isinstance(row[k], float) and np.isnan(row[k]))]
            if wrong or others or [k for k in row.index if k not in base_row.index]:
                cx.bad("head_override_wrong", "overrides given together as %s: columns hold %s, other columns changed %s" % (
                    {sp: consts[sp + "_head_start"] for sp in sps}, wrong, others[:4]), species=sps, together=True)
    finally:
        ap.AnimalModelBuilder.create_animal_objects = orig
    return cx


def head_override_every_round(case):
    """A <species>_head override in a full three-round run must be the starting herd of EVERY herd simulation of the run
    (no-feed round, feed round, final round), not only of the first."""
    import contextlib
    import io

    from src.food_system import animal_populations as ap
    from vlib import capture, workload

    cx = Ctx(case["iso"])
    col, val = case["species"] + "_head", case["value"]
    seen = []
    orig = ap.AnimalModelBuilder.create_animal_objects

    def w(df_row, df_attr):
        seen.append(float(df_row[col]))
        return orig(df_row, df_attr)

    ap.AnimalModelBuilder.create_animal_objects = w
    try:
        o = workload.base_country(shutoff=case["shutoff"], NMONTHS=case["NMONTHS"], scenario=case["scenario"])
        o[col] = val
        with contextlib.redirect_stdout(io.StringIO()):
            tr = capture.run_pipeline({"iso": case["iso"], "opts": o})
    finally:
        ap.AnimalModelBuilder.create_animal_objects = orig
    cx.n["herd_simulations_seen_with_override"] += len(seen)
    if tr.error is not None or len(seen) < 2:
        cx.n["head_override_runs_not_audited"] += 1
        return cx
    cx.n["head_override_full_runs"] += 1
    wrong = [(k, v) for k, v in enumerate(seen) if v != float(val)]
    if wrong:
        cx.bad("head_override_missing_in_a_round", "%s=%s over a three-round run (%s): herd simulation #%d of %d starts from %s=%r" % (
            col, val, case["shutoff"], wrong[0][0] + 1, len(seen), col, wrong[0][1]), species=case["species"], simulations=len(seen), starts=seen)
    return cx


def setter_names():
    """(name, family flag, needs country_data, needs time_consts, writes time_consts) for every public setter of Scenarios."""
    from src.scenarios.scenarios import Scenarios

    import inspect

    out = []
    for name, fn in inspect.getmembers(Scenarios, predicate=inspect.isfunction):
        if name.startswith("_") or name in ("check_all_set", "init_generic_scenario", "get_global_distribution_waste", "get_distribution_waste"):
            continue
        params = list(inspect.signature(fn).parameters)[1:]
        out.append((name, params))
    return out


def classify_setters():
    """Discover each setter's family by which *_SET flag it raises on a fresh loader (run on prepared constants)."""
    import pandas as pd
    from src.scenarios.scenarios import Scenarios

    tab = pd.read_csv(env.REPO + "/data/no_food_trade/computer_readable_combined.csv")
    row = tab[tab.iso3 == "ARG"].iloc[0]
    fams = {}
    for name, params in setter_names():
        for glob in (False, True):
            s = Scenarios()
            try:
                c = s.init_global_food_system_properties() if glob else s.init_country_food_system_properties(row.copy())
                c["NMONTHS"] = 120
                c["STORE_FOOD_BETWEEN_YEARS"] = True
                flags0 = {k: v for k, v in s.__dict__.items() if k.endswith("_SET")}
                args = []
                for p in params:
                    args.append({"constants_for_params": c, "country_data": row.copy(), "time_consts": {}, "time_consts_for_params": {}}.get(p, c))
                if name.startswith("init_"):
                    s2 = Scenarios()
                    getattr(s2, name)(*[a for a in args if a is not c] if "country_data" in params else [])
                    flags = {k for k, v in s2.__dict__.items() if k.endswith("_SET") and v}
                    fams[name] = (tuple(sorted(flags)), params, glob)
                    break
                getattr(s, name)(*args)
                flags = {k for k, v in s.__dict__.items() if k.endswith("_SET") and v and not flags0.get(k)}
                fams[name] = (tuple(sorted(flags)), params, glob)
                break
            except (AssertionError, KeyError, TypeError, SystemExit):
                continue
    return fams, row


def setter_pairs(case):
    from src.scenarios.scenarios import Scenarios

    cx = Ctx("ARG")
    fams, row = classify_setters()
    names = sorted(n for n, (fl, p, g) in fams.items() if len(fl) == 1 and not n.startswith("init_"))
    cx.n["setters_classified"] = len(names)
    unclassified = sorted(n for n, p in setter_names() if n not in names and not n.startswith("init_") and not n.startswith("get_") or (n.startswith("get_") and n not in names and "scenario" in n))
    cx.n["setters_unclassified"] = len(unclassified)
    pairs = list(itertools.product(names, names))
    for i, (a, b) in enumerate(pairs):
        if i % case["nshards"] != case["shard"]:
            continue
        fa, pa, ga = fams[a]
        fb, pb, gb = fams[b]
        if ga != gb:
            continue  # one is global-only and the other country-only
        s = Scenarios()
        c = s.init_global_food_system_properties() if ga else s.init_country_food_system_properties(row.copy())
        c["NMONTHS"] = 120
        c["STORE_FOOD_BETWEEN_YEARS"] = True

        def args(params):
            return [{"constants_for_params": c, "country_data": row.copy(), "time_consts": {}, "time_consts_for_params": {}}.get(p, c) for p in params]

        def flags_of(obj):
            # everything the loader remembers (the *_SET flags and whatever else it records, e.g. the scale it was set up for)
            return {k: (v if isinstance(v, (bool, int, float, str, type(None))) else repr(v)[:80]) for k, v in obj.__dict__.items()
                    if k != "scenario_description"}  # (the human-readable run description is appended to before the checks; it decides nothing)

        f0 = flags_of(s)
        try:
            getattr(s, a)(*args(pa))
        except (AssertionError, KeyError, TypeError) as err:
            # a refused call (a precondition not met on a fresh loader) must leave no option family marked as applied
            cx.n["refused_first_calls"] += 1
            if isinstance(err, AssertionError) and flags_of(s) != f0:
                ch = sorted(k for k in f0 if flags_of(s).get(k) != f0[k])
                cx.bad("refused_setter_marks_family_as_set", "%s refused on a fresh loader (%s) but left %s changed: a missing option would no longer be detected" % (a, str(err)[:60], ch), setter=a, flags=ch)
            continue
        cx.n["ordered_pairs"] += 1
        f1 = flags_of(s)
        try:
            getattr(s, b)(*args(pb))
            second_ok = True
        except AssertionError as err:
            second_ok = False
            if flags_of(s) != f1:
                ch = sorted(k for k in f1 if flags_of(s).get(k) != f1[k])
                cx.bad("refused_setter_marks_family_as_set", "%s refused after %s (%s) but left %s changed" % (b, a, str(err)[:60], ch), setter=b, first=a, flags=ch)
        except (KeyError, TypeError):
            continue
        if fa == fb and second_ok:
            cx.bad("option_family_set_twice", "%s then %s both accepted although both set %s" % (a, b, fa[0]), first=a, second=b, flag=fa[0])
        if fa != fb and not second_ok:
            cx.bad("independent_setter_refused", "%s refused after %s although they set different families (%s / %s)" % (b, a, fb[0], fa[0]), first=a, second=b)
        if fa == fb:
            cx.n["same_family_pairs"] += 1
    # every setter on a loader whose constants are exactly what the initialisation gives (no stored-food regime chosen, no horizon):
    # a setter that refuses because something it needs has not been set yet must not mark its family as applied
    if case["shard"] == 0:
        for a in names:
            fa, pa, ga = fams[a]
            s = Scenarios()
            c = s.init_global_food_system_properties() if ga else s.init_country_food_system_properties(row.copy())
            f0 = {k: v for k, v in s.__dict__.items() if k.endswith("_SET")}
            try:
                getattr(s, a)(*[{"constants_for_params": c, "country_data": row.copy(), "time_consts": {}, "time_consts_for_params": {}}.get(p, c) for p in pa])
            except AssertionError as err:
                cx.n["refused_on_bare_loader"] += 1
                f1 = {k: v for k, v in s.__dict__.items() if k.endswith("_SET")}
                if f1 != f0:
                    ch = sorted(k for k in f0 if f1.get(k) != f0[k])
                    cx.bad("refused_setter_marks_family_as_set", "%s refused on a bare loader (%s) but left %s changed: the same value is then refused as already set and a missing option is no longer detected" % (
                        a, " ".join(str(err).split())[:70], ch), setter=a, flags=ch)
            except (KeyError, TypeError):
                cx.n["bare_loader_calls_skipped"] += 1
            else:
                cx.n["accepted_on_bare_loader"] += 1
    # the scale family: a second attempt (same or other scale) is refused and leaves the loader exactly as it was - what it
    # recorded about the scale decides which values of other families it accepts afterwards
    if case["shard"] == 0:
        for first in ("country", "global"):
            for second in ("country", "global"):
                s = Scenarios()
                init = {"country": lambda: s.init_country_food_system_properties(row.copy()), "global": lambda: s.init_global_food_system_properties()}
                init[first]()
                before = {k: (v if isinstance(v, (bool, int, float, str, type(None))) else repr(v)[:80]) for k, v in s.__dict__.items() if k != "scenario_description"}
                cx.n["scale_set_twice"] += 1
                try:
                    init[second]()
                    cx.bad("option_family_set_twice", "scale set as %s and then as %s: both accepted" % (first, second), first=first, second=second, flag="SCALE_SET")
                except AssertionError:
                    after = {k: (v if isinstance(v, (bool, int, float, str, type(None))) else repr(v)[:80]) for k, v in s.__dict__.items() if k != "scenario_description"}
                    if after != before:
                        ch = sorted(k for k in set(before) | set(after) if before.get(k) != after.get(k))
                        cx.bad("refused_setter_marks_family_as_set", "scale=%s refused after scale=%s but left %s changed on the loader" % (second, first, ch), setter="scale:" + second, first="scale:" + first, flags=ch)
    # every family flag must be required by check_all_set
    flags = sorted({fl[0] for fl, p, g in fams.values() if len(fl) == 1})
    for fl in flags:
        s = Scenarios()
        for k in list(s.__dict__):
            if k.endswith("_SET"):
                setattr(s, k, True)
        setattr(s, fl, False)
        cx.n["all_set_checks"] += 1
        try:
            s.check_all_set()
            cx.bad("unset_family_not_detected", "check_all_set passes with %s unset" % fl, flag=fl)
        except AssertionError:
            pass
    return cx


def end_to_end_rejection(case):
    """Rejected input through the public multi-country entry point: nothing is computed, the options are untouched."""
    from src.scenarios.run_model_no_trade import ScenarioRunnerNoTrade
    from vlib import capture

    capture.install()
    cx = Ctx(case["iso"])
    base = cx.base()
    for f, v in (("shutoff", "never"), ("scenario", "everything"), ("waste", None), ("meat_strategy", "efficient"), ("fish", "some")):
        o = copy.deepcopy(base)
        o[f] = v
        before = copy.deepcopy(o)
        c0 = dict(capture.COUNTERS)
        cx.n["e2e_rejections"] += 1
        try:
            ScenarioRunnerNoTrade().run_model_no_trade(title="t", create_pptx_with_all_countries=False, show_country_figures=False, show_map_figures=False,
                                                      add_map_slide_to_pptx=False, scenario_option=o, countries_list=[case["iso"]], return_results=True)
            cx.bad("unknown_value_accepted", "run_model_no_trade accepted %s=%r" % (f, v), family=f)
        except (AssertionError, SystemExit):
            pass
        for k in ("Parameters.compute_parameters_first_round", "Optimizer.optimize_to_humans", "CalculateFeedAndMeat.__init__"):
            if capture.COUNTERS.get(k, 0) != c0.get(k, 0):
                cx.bad("computation_before_rejection", "%s ran before %s=%r was rejected" % (k, f, v), family=f)
        if o != before:
            cx.bad("caller_options_modified", "run_model_no_trade changed the caller's options while rejecting %s" % f, family=f)
    # one option dictionary serves every country of a multi-country call: each country must get the constants its options
    # describe, whatever country was handled before it (the optimisation itself is stubbed out here)
    from src.scenarios.run_scenario import ScenarioRunner

    seen = []
    orig_set = ScenarioRunner.set_depending_on_option
    orig_run = ScenarioRunner.run_and_analyze_scenario

    class _R:
        percent_people_fed = 50.0

    def w_set(self, scenario_option, country_data=None):
        r = orig_set(self, scenario_option, country_data=country_data)
        seen.append((country_data["iso3"], copy.deepcopy(r[0])))
        return r

    ScenarioRunner.set_depending_on_option = w_set
    ScenarioRunner.run_and_analyze_scenario = lambda self, *a, **k: _R()
    try:
        for scen, shut in (("seaweed", "continued"), ("all_resilient_foods", "long_delayed_shutoff")):
            o = copy.deepcopy(base)
            o.update(scenario=scen, shutoff=shut, cull="do_eat_culled")
            before = copy.deepcopy(o)
            del seen[:]
            cx.n["e2e_multi_country_calls"] += 1
            ScenarioRunnerNoTrade().run_model_no_trade(title="t", create_pptx_with_all_countries=False, show_country_figures=False, show_map_figures=False,
                                                      add_map_slide_to_pptx=False, scenario_option=o, countries_list=["ALB", "SLV", "ECU", case["iso"], "ZWE", "VNM"], return_results=True)
            if o != before:
                cx.bad("caller_options_modified", "run_model_no_trade over several countries changed the caller's options: %s" % {k: (before.get(k), o.get(k)) for k in set(o) | set(before) if o.get(k) != before.get(k)})
            want = SHUTOFF[shut]
            for iso, c in seen:
                if iso in ("ALB", "SLV", "ECU"):
                    continue
                cx.n["e2e_country_constants_checked"] += 1
                fw = c["NMONTHS"] if want[0] == "N" else want[0]
                if c["DELAY"]["FEED_SHUTOFF_MONTHS"] != fw:
                    cx.bad("option_value_sets_wrong_constant", "multi-country call, %s handled after other countries: shutoff=%s gives FEED_SHUTOFF_MONTHS=%r, documented %r" % (iso, shut, c["DELAY"]["FEED_SHUTOFF_MONTHS"], fw), family="shutoff", value=shut, after_other_countries=True)
    finally:
        ScenarioRunner.set_depending_on_option = orig_set
        ScenarioRunner.run_and_analyze_scenario = orig_run
    # a valid run leaves the caller's dictionary alone, too
    # (the plain call and the call the web interface makes: save_all_results=True, with a title that is not in the dictionary)
    for web in (False, True):
        o = copy.deepcopy(base)
        o["kg_meat_per_large_animal"] = 300
        before = copy.deepcopy(o)
        cx.n["e2e_valid_runs"] += 1
        try:
            import contextlib
            import io

            with contextlib.redirect_stdout(io.StringIO()):
                ScenarioRunnerNoTrade().run_model_no_trade(title="t web" if web else "t", create_pptx_with_all_countries=False, show_country_figures=False, show_map_figures=False,
                                                          add_map_slide_to_pptx=False, scenario_option=o, countries_list=[case["iso"]], return_results=True, save_all_results=web)
        except BaseException as e:  # noqa: BLE001
            if isinstance(e, KeyboardInterrupt):
                raise
            cx.n["e2e_valid_run_failed"] += 1
        if o != before:
            cx.bad("caller_options_modified", "run_model_no_trade%s changed the caller's options: %s" % (" (save_all_results=True)" if web else "", {k: (before.get(k), o.get(k)) for k in set(o) | set(before) if o.get(k) != before.get(k)}),
                   web=web)
    return cx


def through_runner(case):
    """run_model_no_trade for every country of the table in one call, the optimisation rounds replaced by a recorder: the
    constants each country's run is started with must be the documented function of the submitted options and of that
    country's row as it stands in the table (the dispatcher's own preparation of the row included)."""
    import contextlib
    import io
    import pandas as pd
    from src.scenarios.run_model_no_trade import ScenarioRunnerNoTrade
    from src.scenarios.run_scenario import ScenarioRunner

    tab = pd.read_csv(env.REPO + "/data/no_food_trade/computer_readable_combined.csv")
    agg = Ctx("WOR")
    agg.iso = "ALL"
    opts = copy.deepcopy(case["opts"])
    submitted = copy.deepcopy(opts)
    seen_iso = []
    orig = ScenarioRunner.run_and_analyze_scenario

    class _Res:
        percent_people_fed = 50.0

    def stub(self, c, t, l, *a, **k):
        iso = c.get("COUNTRY_CODE") if hasattr(c, "get") else None
        if iso is None:
            iso = next((x for x in a if isinstance(x, str) and len(x) == 3 and x.isupper()), "?")
        seen_iso.append(iso)
        rows = tab[tab.iso3 == iso]
        if not len(rows):
            agg.bad("country_not_in_table", "run started for %r which is not a row of the table" % iso)
            return _Res()
        cx = Ctx.__new__(Ctx)
        cx.iso, cx.glob, cx.row, cx.viol, cx.seen, cx.n = iso, False, rows.iloc[0], agg.viol, agg.seen, agg.n
        row_mapping(cx, c)
        for f, v in submitted.items():
            if f in ("scale", "buffer", "title"):
                continue
            agg.n["values_through_runner"] += 1
            spec_check(cx, f, v, submitted, c, t)
        return _Res()

    ScenarioRunner.run_and_analyze_scenario = stub
    try:
        with contextlib.redirect_stdout(io.StringIO()):
            if case.get("via_yaml"):
                from src.scenarios import run_scenarios_from_yaml as ry

                sim = {k: v for k, v in opts.items() if k != "NMONTHS"}
                sim["title"] = "r"
                ry.run_scenarios_from_yaml({"settings": {"NMONTHS": opts["NMONTHS"], "countries": []}, "simulations": {"only": sim}}, False, False, False)
                opts = submitted  # (the entry point works on the file's own dictionaries)
            else:
                ScenarioRunnerNoTrade().run_model_no_trade(title="r", create_pptx_with_all_countries=False, show_country_figures=False, show_map_figures=False,
                                                          add_map_slide_to_pptx=False, scenario_option=opts, countries_list=[], return_results=True)
    except BaseException as e:  # noqa: BLE001
        if isinstance(e, KeyboardInterrupt):
            raise
        agg.bad("documented_option_rejected", "run over every country with %s stopped after %d countries: %r" % (submitted, len(seen_iso), e), family="through_runner")
    finally:
        ScenarioRunner.run_and_analyze_scenario = orig
    if opts != submitted:
        agg.bad("caller_options_modified", "option dictionary changed by the call: %s" % {k: (submitted.get(k), opts.get(k)) for k in set(opts) | set(submitted) if opts.get(k) != submitted.get(k)}, family="through_runner")
    agg.n["countries_through_runner"] += len(seen_iso)
    missing = sorted(set(tab.iso3) - set(seen_iso))
    if missing and len(seen_iso) > 0 and not any(v["mech"] == "documented_option_rejected" for v in agg.viol):
        agg.bad("country_skipped_by_runner", "%d rows of the table were not run: %s" % (len(missing), missing[:8]), family="through_runner")
    return agg


def run_case(case, tier):
    fn = {"values": values, "through_runner": through_runner, "rejections": rejections, "overrides": overrides, "head_overrides": head_overrides, "head_override_every_round": head_override_every_round, "setter_pairs": setter_pairs,
          "end_to_end_rejection": end_to_end_rejection}[case["kind"]]
    cx = fn(case)
    return {"viol": cx.viol, "obs": {"kind": case["kind"], "iso": cx.iso, "counts": dict(cx.n), "viol_counts": dict(cx.seen)}}


def summarize(cases, records, tier):
    ok = [r for r in records if r.get("status") == "ok"]
    tot = collections.Counter()
    for r in ok:
        tot.update(r["obs"]["counts"])
    kinds = collections.Counter(r["obs"]["kind"] for r in ok)
    ev = sum(v for k, v in tot.items() if k in ("values", "unknown_values", "missing_keys", "overrides", "head_overrides", "ordered_pairs", "e2e_rejections", "out_of_range_overrides", "wrong_scale_values", "unsupported_values", "all_set_checks", "row_mapping_cells"))
    cov = {
        "evaluations": int(ev),
        "distinct_nontrivial": int(tot.get("values", 0) + tot.get("head_overrides", 0) + tot.get("ordered_pairs", 0)),
        "rule": "evaluations = option vectors / setter pairs / overrides submitted to the dispatcher or the setters; distinct_nontrivial = distinct (country row, family, value) accepted-value checks + distinct (country row, species) head-count overrides + distinct ordered setter pairs",
        "samples": [{"kind": r["obs"]["kind"], "iso": r["obs"]["iso"], "counts": r["obs"]["counts"]} for r in ok[:8]] or [{"note": "none"}],
        "totals": dict(tot), "cases_by_kind": dict(kinds),
        "observations": {"values_of_the_other_scale_accepted_silently": int(tot.get("wrong_scale_accepted", 0)),
                         "grasses_all_crops_die_instantly_rejected_at_global_scale": int(tot.get("grasses_all_die_global_rejected", 0))},
    }
    cov["head_override_full_runs"] = int(tot.get("head_override_full_runs", 0))
    cov["herd_simulations_seen_with_override"] = int(tot.get("herd_simulations_seen_with_override", 0))
    for need in ("values", "unknown_values", "missing_keys", "overrides", "head_overrides", "ordered_pairs", "same_family_pairs", "e2e_rejections", "head_override_full_runs", "countries_through_runner", "scale_set_twice"):
        if tot.get(need, 0) == 0:
            cov["inconclusive_reason"] = "nothing evaluated for " + need
    return cov
