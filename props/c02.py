"""C02 — percent fed is the true optimum of the allocation problem."""
import collections

from props import pipeline
from vlib import reflp, workload

ASSUMPTIONS = [
    "reference = independently formulated LP (vlib/reflp.py) solved by scipy HiGHS; verdict |z_repo - z_ref| <= 5e-6*max(1,|z_ref|) in both directions",
    "HiGHS status != optimal or time limit -> instance inconclusive, never a violation",
    "the animal round is compared with human consumption pinned inside the band the model documents (1e-5, 1e-4 below 10 M people)",
]
TOL = 5e-6


def gen_cases(tier, seed):
    return workload.pipeline_grid(tier, seed)


def monitor(tr, case):
    viol, lps = [], []
    for k, lp in enumerate(tr.lps):
        r = reflp.ref_lp(lp.kind, lp.consts, lp.time_consts, lp.mhc, physical_meat=True)
        rec = {"kind": lp.kind, "round": k + 1, "z_repo": lp.objective, "z_ref": r["z"], "status": r["status"],
               "rows": r["n_rows"], "vars": r["n_vars"], "tight": sorted(f for f, v in r["tight"].items() if v)}
        if r["status"] != 0:
            rec["inconclusive"] = r["message"]
            # an infeasible *reference* while the model solved is itself informative: classify below
            if r["status"] == 2:
                r2 = reflp.ref_lp(lp.kind, lp.consts, lp.time_consts, lp.mhc, physical_meat=False)
                if r2["status"] == 0:
                    viol.append({"mech": "optimum_not_physically_feasible_meat_before_slaughter",
                                 "msg": "%s round %d (%s): reference with the cumulative meat ledger is infeasible, with the per-month cap it gives %.6f (model %.6f)" % (
                                     case["iso"], k + 1, lp.kind, r2["z"], lp.objective),
                                 "data": {"iso": case["iso"], "round": k + 1, "kind": lp.kind}})
            lps.append(rec)
            continue
        zr, z = r["z"], lp.objective
        gap = (z - zr) / max(1.0, abs(zr))
        rec["gap_rel"] = gap
        if abs(gap) > TOL:
            r2 = reflp.ref_lp(lp.kind, lp.consts, lp.time_consts, lp.mhc, physical_meat=False)
            if r2["status"] == 0 and abs(z - r2["z"]) <= TOL * max(1.0, abs(r2["z"])) and gap > 0:
                mech = "optimum_exceeds_physical_meat_before_slaughter"
            else:
                mech = "optimum_above_reference" if gap > 0 else "optimum_below_reference"
            viol.append({"mech": mech, "msg": "%s round %d (%s): model reports %.8g, independent optimum %.8g (rel gap %.3e)" % (
                case["iso"], k + 1, lp.kind, z, zr, gap),
                "data": {"iso": case["iso"], "round": k + 1, "kind": lp.kind, "gap_rel": gap, "tag": case.get("tag")}})
        lps.append(rec)
    return viol, {"audited": sum(1 for x in lps if "gap_rel" in x), "lps": lps}


def run_case(case, tier):
    return pipeline.run(case, monitor)


def summarize(cases, records, tier):
    cov, ok, audited = pipeline.base_summary(
        cases, records, lambda r: any(lp.get("z_ref") and lp["z_ref"] > 0 for lp in r["obs"]["lps"]),
        "one case = one three-round run; evaluations = LP instances whose reported optimum was compared with the independent HiGHS optimum; "
        "non-trivial = reference optimum > 0; distinct by (iso, option vector)",
        lambda r: {"iso": r["obs"]["iso"], "tag": r["obs"]["tag"],
                   "lps": [{k: lp.get(k) for k in ("kind", "z_repo", "z_ref", "gap_rel", "rows", "vars")} for lp in r["obs"]["lps"]]},
        min_audited=max(10, len(cases) // 3))
    tight = collections.Counter()
    kinds = collections.Counter()
    gaps = []
    ninc = 0
    for r in ok:
        for lp in r["obs"].get("lps", []):
            if "gap_rel" in lp:
                kinds[lp["kind"]] += 1
                gaps.append(abs(lp["gap_rel"]))
                for f in lp["tight"]:
                    tight[f] += 1
            else:
                ninc += 1
    gaps.sort()
    cov.update(instances_by_kind=dict(kinds), reference_not_optimal_instances=ninc,
               constraint_family_tight_at_reference_optimum_in_instances=dict(tight),
               abs_rel_gap_quantiles={"p50": gaps[len(gaps) // 2] if gaps else None, "p99": gaps[int(len(gaps) * 0.99)] if gaps else None,
                                      "max": gaps[-1] if gaps else None})
    if kinds.get("to_animals", 0) == 0 and "inconclusive_reason" not in cov:
        cov["inconclusive_reason"] = "no feed-maximising round was compared"
    if ninc > 0.1 * max(1, sum(kinds.values())) and "inconclusive_reason" not in cov:
        cov["inconclusive_reason"] = "%d reference solves not optimal" % ninc
    return cov
