"""C02 — percent fed is the true optimum of the allocation problem."""
import collections
import copy

import numpy as np

from props import pipeline

from vlib import pulp_highs, reflp, workload

ASSUMPTIONS = [
    "the reference takes the intake caps from the documented table for the submitted intake_constraints value, not from the constants of the run",
    "reference = independently formulated LP (vlib/reflp.py) solved by scipy HiGHS. Two comparisons, both directions: (1) the PuLP model the repository's code builds, solved by HiGHS without CBC, must agree with the reference to 5e-7*max(1,|z|) (formulation; both solved with HiGHS feasibility tolerances 1e-10, observed agreement 2.5e-9); (2) the value CBC reports must agree to 1e-4*max(1,|z|) (CBC's feasibility tolerance is amplified by the seaweed growth chain on world-scale instances: observed up to 3.0e-5 below the optimum, WOR seaweed 96 months)",
    "HiGHS status != optimal or time limit -> instance inconclusive, never a violation",
    "the animal round is compared with human consumption pinned inside the band the model documents (1e-5, 1e-4 below 10 M people)",
]
TOL = 5e-7  # reference vs. the code-built model, both solved by HiGHS
TOL_REPORTED = 1e-4  # reference vs. the value CBC reports


def gen_cases(tier, seed):
    return workload.pipeline_grid(tier, seed)


# the documented caps on the share of seaweed / cellulosic sugar / methane SCP (scenarios/README.md and the two setters of the
# intake_constraints family): humans by mode, feed and biofuel the same in both modes
DOC_CAPS = {"HUMANS": {"enabled": {"SEAWEED": 10, "CELLULOSIC_SUGAR": 40, "METHANE_SCP": 50},
                       "disabled_for_humans": {"SEAWEED": 100, "CELLULOSIC_SUGAR": 100, "METHANE_SCP": 100}},
            "FEED": {"SEAWEED": 10, "CELLULOSIC_SUGAR": 10, "METHANE_SCP": 43},
            "BIOFUEL": {"SEAWEED": 10, "CELLULOSIC_SUGAR": 100, "METHANE_SCP": 100}}


def with_documented_caps(consts, opts):
    """copy of the optimiser constants whose intake caps are the documented ones for the SUBMITTED intake_constraints value"""
    mode = opts.get("intake_constraints")
    if mode not in DOC_CAPS["HUMANS"]:
        return consts
    c = copy.copy(consts)
    inp = dict(c["inputs"])
    for use in ("HUMANS", "FEED", "BIOFUEL"):
        tab = DOC_CAPS[use][mode] if use == "HUMANS" else DOC_CAPS[use]
        for food, pct in tab.items():
            inp["MAX_%s_AS_PERCENT_KCALS_%s" % (food, use)] = pct
    c["inputs"] = inp
    return c


def monitor(tr, case):
    viol, lps = [], []
    for k, lp in enumerate(tr.lps):
        ref_consts = with_documented_caps(lp.consts, case["opts"])
        r = reflp.ref_lp(lp.kind, ref_consts, lp.time_consts, lp.mhc, physical_meat=True)
        rec = {"kind": lp.kind, "round": k + 1, "z_repo": lp.objective, "z_ref": r["z"], "status": r["status"],
               "rows": r["n_rows"], "vars": r["n_vars"], "tight": sorted(f for f, v in r["tight"].items() if v)}
        if r["status"] != 0:
            rec["inconclusive"] = r["message"]
            # an infeasible *reference* while the model solved is itself informative: classify below
            if r["status"] == 2:
                r2 = reflp.ref_lp(lp.kind, ref_consts, lp.time_consts, lp.mhc, physical_meat=False)
                if r2["status"] == 0:
                    viol.append({"mech": "optimum_not_physically_feasible_meat_before_slaughter",
                                 "msg": "%s round %d (%s): reference with the cumulative meat ledger is infeasible, with the per-month cap it gives %.6f (model %.6f)" % (
                                     case["iso"], k + 1, lp.kind, r2["z"], lp.objective),
                                 "data": {"iso": case["iso"], "round": k + 1, "kind": lp.kind}})
            lps.append(rec)
            continue
        zr, z = r["z"], lp.objective
        gap = (z - zr) / max(1.0, abs(zr))
        rec["gap_rel"] = gap
        # the model the repository builds, solved without CBC: separates formulation errors from solver noise
        zm, stm = pulp_highs.first_stage_optimum(copy.copy(lp.consts), dict(lp.time_consts), lp.kind, lp.mhc)
        rec["z_code_model_highs"] = zm
        gap_m = None if zm is None else (zm - zr) / max(1.0, abs(zr))
        rec["gap_model_rel"] = gap_m
        data = {"iso": case["iso"], "round": k + 1, "kind": lp.kind, "gap_rel": gap, "gap_model_rel": gap_m, "tag": case.get("tag")}
        tol_f = 5e-6 if r.get("loose_tolerances") else TOL
        rec["reference_loose_tolerances"] = bool(r.get("loose_tolerances"))
        if gap_m is not None and abs(gap_m) > tol_f:
            r2 = reflp.ref_lp(lp.kind, ref_consts, lp.time_consts, lp.mhc, physical_meat=False)
            if r2["status"] == 0 and abs(zm - r2["z"]) <= TOL * max(1.0, abs(r2["z"])) and gap_m > 0:
                mech = "optimum_exceeds_physical_meat_before_slaughter"
            else:
                mech = "formulation_optimum_above_reference" if gap_m > 0 else "formulation_optimum_below_reference"
            viol.append({"mech": mech, "msg": "%s round %d (%s): the model the code builds has optimum %.9g, the independent formulation %.9g (rel gap %.3e; CBC reported %.8g)" % (
                case["iso"], k + 1, lp.kind, zm, zr, gap_m, z), "data": data})
        elif abs(gap) > TOL_REPORTED or (gap_m is None and abs(gap) > TOL):
            mech = "reported_optimum_above_reference" if gap > 0 else "reported_optimum_below_reference"
            viol.append({"mech": mech, "msg": "%s round %d (%s): CBC reports %.8g, independent optimum %.8g (rel gap %.3e; code-built model under HiGHS %r)" % (
                case["iso"], k + 1, lp.kind, z, zr, gap, zm), "data": data})
        if lp.kind == "to_animals" and z is not None:
            # what the round hands on is the allocation left after its secondary (smoothing) solves, not the optimum of the first
            # solve: its weighted total of feed and biofuel must still be that optimum (the code itself allows 0.005 % slack)
            tot = {}
            for tag in ("feed", "biofuel"):
                t_ = np.zeros(lp.N)
                for name, kk in (("stored_food_", 1), ("crops_food_", 1), ("seaweed_", lp.consts["SEAWEED_KCALS"]), ("cellulosic_sugar_", 1), ("methane_scp_", 1)):
                    if lp.has(name + tag):
                        t_ += np.nan_to_num(lp.val(name + tag)) * kk
                tot[tag] = float(t_.sum())
            handed = 2.0 / 3.0 * tot["feed"] + tot["biofuel"] / 3.0
            rec["handed_on_weighted_total"] = handed
            if handed < z * (1 - 2e-4) - 1e-6:
                viol.append({"mech": "feed_round_allocation_below_its_optimum", "msg": "%s round %d (to_animals): the optimum is a weighted feed+biofuel total of %.8g but the allocation handed on is worth %.8g (%.2f %%)" % (
                    case["iso"], k + 1, z, handed, 100.0 * handed / z if z else 0.0), "data": dict(data, handed=handed, optimum=z)})
        lps.append(rec)
    return viol, {"audited": sum(1 for x in lps if "gap_rel" in x), "lps": lps}


def run_case(case, tier):
    return pipeline.run(case, monitor)


def summarize(cases, records, tier):
    cov, ok, audited = pipeline.base_summary(
        cases, records, lambda r: any(lp.get("z_ref") and lp["z_ref"] > 0 for lp in r["obs"]["lps"]),
        "one case = one three-round run; evaluations = LP instances whose reported optimum was compared with the independent HiGHS optimum; "
        "non-trivial = reference optimum > 0; distinct by (iso, option vector)",
        lambda r: {"iso": r["obs"]["iso"], "tag": r["obs"]["tag"],
                   "lps": [{k: lp.get(k) for k in ("kind", "z_repo", "z_ref", "gap_rel", "rows", "vars")} for lp in r["obs"]["lps"]]},
        min_audited=max(10, len(cases) // 3))
    tight = collections.Counter()
    kinds = collections.Counter()
    gaps = []
    ninc = 0
    for r in ok:
        for lp in r["obs"].get("lps", []):
            if "gap_rel" in lp:
                kinds[lp["kind"]] += 1
                gaps.append(abs(lp["gap_rel"]))
                for f in lp["tight"]:
                    tight[f] += 1
            else:
                ninc += 1
    gm = sorted(abs(lp["gap_model_rel"]) for r in ok for lp in r["obs"].get("lps", []) if lp.get("gap_model_rel") is not None)
    gaps.sort()
    cov.update(instances_by_kind=dict(kinds), reference_not_optimal_instances=ninc,
               constraint_family_tight_at_reference_optimum_in_instances=dict(tight),
               abs_rel_gap_quantiles={"p50": gaps[len(gaps) // 2] if gaps else None, "p99": gaps[int(len(gaps) * 0.99)] if gaps else None,
                                      "max": gaps[-1] if gaps else None},
               abs_rel_gap_code_model_vs_reference={"p50": gm[len(gm) // 2] if gm else None, "max": gm[-1] if gm else None, "n": len(gm)})
    if kinds.get("to_animals", 0) == 0 and "inconclusive_reason" not in cov:
        cov["inconclusive_reason"] = "no feed-maximising round was compared"
    if ninc > 0.1 * max(1, sum(kinds.values())) and "inconclusive_reason" not in cov:
        cov["inconclusive_reason"] = "%d reference solves not optimal" % ninc
    return cov
