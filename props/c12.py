"""C12 — more supply never feeds fewer people, and scale does not matter.

Metamorphic re-execution: the inputs of every human-maximising LP captured from real
runs are deep-copied, perturbed one family at a time and solved again with the real
Optimizer; the first-stage objectives are compared."""
import collections
import copy
import random

import numpy as np

from vlib import capture, pulp_highs, workload

ASSUMPTIONS = [
    "percent fed = first-stage objective returned by Optimizer.optimize_to_humans on the perturbed deep copy; the two secondary (tie-breaking / smoothing) solves are replaced by no-ops in this check because they do not enter that value (their effect on the headline is C04's subject)",
    "each relation is evaluated twice: on the value the real optimiser (CBC) reports, tolerance 3e-5 * max(1, z), and on the exact optimum of the PuLP model the repository's own code builds, solved by HiGHS (vlib/pulp_highs.py), tolerance 1e-5 * max(1, z); a relation that fails only on the reported value is classified as solver inaccuracy, one that fails on the exact optimum as a formulation violation",
    "common scale factors are applied only when the scaled population stays within 3e5 .. 1e10 people (the model's own input validation rejects populations above 1e10; below 3e5 the solver's absolute tolerances are no longer negligible)",
    "verdict: a formulation violation needs the relation to fail on both evaluations (CBC-reported value and HiGHS optimum of the code-built model); failing only on the reported value = solver inaccuracy (reported, known finding on the unchanged tree); failing only on the HiGHS value = reference-solver noise, counted in evidence, not a verdict",
    "meat is perturbed consistently in its three representations (monthly slaughter, running total, grand total); initial seaweed biomass is not treated as a supply (it is also the lower bound of the standing biomass)",
    "an infeasible perturbed instance after a charge increase counts as 'not greater'; after a supply increase or waste decrease it is a violation",
]
TOL = 3e-5
TOL_H = 1e-5
_patched = {"done": False}


def gen_cases(tier, seed):
    grid = workload.pipeline_grid(tier, seed, n_random_quick=8, n_random_thorough=60, per_row_quick=1, presets=True)
    if tier == "quick":
        rnd = random.Random(1200 + seed)
        pairwise = [c for c in grid if c["tag"].startswith("pairwise")]
        others = [c for c in grid if not c["tag"].startswith("pairwise")]
        grid = pairwise[::2] + rnd.sample(others, min(8, len(others)))
    else:
        grid = grid[::4]
    # rounds that carry a feed/biofuel charge together with the resilient foods whose use in feed and biofuel is limited to a
    # share of those charges: the place where a charge enters a constraint with a positive sign
    rnd = random.Random(1250 + seed)
    isos = workload.all_isos()
    big = ["USA", "IDN", "CHN", "BRA", "ARG", "FRA", "IND", "RUS", "CAN", "AUS"]
    for k in range(8 if tier == "quick" else 80):
        iso = big[(k + seed) % len(big)] if k % 2 == 0 else rnd.choice(isos)
        o = workload.base_country(scenario=["all_resilient_foods", "industrial_foods", "methane_scp", "cellulosic_sugar", "seaweed", "all_resilient_foods_and_more_area"][(k + seed) % 6],
                                  shutoff=["continued_after_10_percent_fed", "continued", "long_delayed_shutoff_after_10_percent_fed", "long_delayed_shutoff"][(k // 2 + seed) % 4],
                                  intake_constraints=["enabled", "enabled", "disabled_for_humans"][k % 3], NMONTHS=rnd.choice([120, 72]))
        grid.append(workload.pipeline_case(iso, o, "charged_resilient%d" % k))
        grid[-1]["id"] = "%s/charged_resilient#%d" % (iso, k)
        grid[-1]["many_charge_months"] = True
    for c in grid:
        c["gen_seed"] = seed
    return grid


def patch_secondary():
    if _patched["done"]:
        return
    _patched["done"] = True
    from src.optimizer.optimizer import Optimizer

    _patched["a"] = Optimizer.optimize_best_food_consumption_to_go_to_humans
    _patched["b"] = Optimizer.reduce_fluctuations_with_a_final_optimization
    _patched["c"] = Optimizer.constrain_next_optimization_to_have_same_total_resilient_foods_in_feed


def solve(c, t):
    """First-stage optimum of the real optimiser on (c, t); None if the solver reports failure."""
    from src.optimizer.optimizer import Optimizer

    patch_secondary()
    Optimizer.optimize_best_food_consumption_to_go_to_humans = lambda self, model, variables, flag, consts: (model, variables)
    Optimizer.reduce_fluctuations_with_a_final_optimization = lambda self, model, variables, flag, consts, typ: (model, variables)
    Optimizer.constrain_next_optimization_to_have_same_total_resilient_foods_in_feed = lambda self, model, variables: (model, variables)
    try:
        return float(Optimizer(c, t).optimize_to_humans(c, t)[3])
    except AssertionError as e:
        if "OPTIMIZATION FAILED" in str(e):
            return None
        raise
    finally:
        Optimizer.optimize_best_food_consumption_to_go_to_humans = _patched["a"]
        Optimizer.reduce_fluctuations_with_a_final_optimization = _patched["b"]
        Optimizer.constrain_next_optimization_to_have_same_total_resilient_foods_in_feed = _patched["c"]


def set_meat(c, t, sl):
    t["each_month_meat_slaughtered"].kcals = np.array(sl, float)
    t["max_consumed_culled_kcals_each_month"] = np.cumsum(sl)
    c["meat_summed_consumption"] = float(np.sum(sl))


def perturbations(c, t, rnd, many_months=False):
    """yield (name, kind, mutate(c2, t2)) ; kind in {'more', 'less', 'scale'}"""
    N = c["NMONTHS"]
    m = rnd.randrange(N)
    out = []

    def series(name, getter):
        def all_(c2, t2):
            a = getter(c2, t2)
            a[:] = a * 1.1

        def one(c2, t2):
            a = getter(c2, t2)
            a[m] = a[m] * 1.5 + 1e-3 * max(1.0, float(np.abs(a).max()))

        out.append((name + ":all_months+10%", "more", all_))
        out.append((name + ":month%d+50%%" % m, "more", one))

    if c["ADD_STORED_FOOD"]:
        def sf(c2, t2):
            c2["stored_food"].initial_available = c2["stored_food"].initial_available * 1.1

        out.append(("stored_food:+10%", "more", sf))
    if c["ADD_OUTDOOR_GROWING"]:
        series("crops", lambda c2, t2: t2["outdoor_crops"].production.kcals)
    if c["ADD_MEAT"]:
        def meat_all(c2, t2):
            set_meat(c2, t2, np.asarray(t2["each_month_meat_slaughtered"].kcals, float) * 1.1)

        def meat_one(c2, t2):
            sl = np.asarray(t2["each_month_meat_slaughtered"].kcals, float).copy()
            sl[m] = sl[m] * 1.5 + 1e-3 * max(1.0, sl.max())
            set_meat(c2, t2, sl)

        # the optimiser is handed the meat supply twice over (monthly slaughter, its running total, and the horizon total as a
        # constant): raising the running total alone from some month on means "this much meat could be eaten earlier"
        m3 = rnd.randrange(N)

        def meat_running(c2, t2):
            cum = np.asarray(t2["max_consumed_culled_kcals_each_month"], float).copy()
            cum[m3:] += 0.02 * max(float(cum[-1]), 1e-9)
            t2["max_consumed_culled_kcals_each_month"] = cum

        out.append(("meat_running_total:from_month%d+2%%_of_total" % m3, "more", meat_running))
        out.append(("meat:all_months+10%", "more", meat_all))
        out.append(("meat:month%d+50%%" % m, "more", meat_one))

    def milk(c2, t2):
        t2["milk_kcals"] = np.asarray(t2["milk_kcals"], float) * 1.1

    out.append(("milk:all_months+10%", "more", milk))
    series("fish", lambda c2, t2: t2["fish"].to_humans.kcals)
    series("greenhouse", lambda c2, t2: t2["greenhouse_crops"].kcals)
    if c["ADD_METHANE_SCP"]:
        series("scp", lambda c2, t2: t2["methane_scp"].kcals)
    if c["ADD_CELLULOSIC_SUGAR"]:
        series("cell_sugar", lambda c2, t2: t2["cellulosic_sugar"].kcals)
    if c["ADD_SEAWEED"]:
        def area(c2, t2):
            t2["built_area"] = np.asarray(t2["built_area"], float) * 1.1
            c2["INITIAL_BUILT_SEAWEED_AREA"] = c2["INITIAL_BUILT_SEAWEED_AREA"]  # unchanged lower bound

        def growth(c2, t2):
            t2["growth_rates_monthly"] = np.asarray(t2["growth_rates_monthly"], float) * 1.05

        out.append(("seaweed_built_area:+10%", "more", area))
        out.append(("seaweed_growth:+5%", "more", growth))
    for key, on in (("STORED_FOOD_WASTE_RETAIL", c["ADD_STORED_FOOD"]), ("CROP_WASTE_RETAIL", c["ADD_OUTDOOR_GROWING"]), ("MEAT_WASTE_RETAIL", c["ADD_MEAT"]),
                    ("SCP_RETAIL_WASTE", c["ADD_METHANE_SCP"]), ("CELL_SUGAR_RETAIL_WASTE", c["ADD_CELLULOSIC_SUGAR"]), ("SEAWEED_WASTE_RETAIL", c["ADD_SEAWEED"])):
        if on and c[key] > 0:
            def waste(c2, t2, key=key):
                c2[key] = max(0.0, c2[key] - 5.0)

            out.append((key + ":-5points", "more", waste))
    if float(np.sum(t["feed"].kcals)) > 0:
        def feed(c2, t2):
            t2["feed"].kcals = np.asarray(t2["feed"].kcals, float) * 1.05

        out.append(("feed_charge:+5%", "less", feed))
    if float(np.sum(t["biofuel"].kcals)) > 0:
        def bio(c2, t2):
            t2["biofuel"].kcals = np.asarray(t2["biofuel"].kcals, float) * 1.05

        out.append(("biofuel_charge:+5%", "less", bio))
    # additive charge increases (a charge of zero stays zero under a factor): one month by 20 % of monthly needs, every month by 2 %
    needs = float(c["inputs"]["POP"]) * float(c["inputs"]["NUTRITION"]["KCALS_DAILY"]) * 30.0 / 1e9
    months = sorted(rnd.sample(range(N), 6 if many_months else 1))
    for key in ("feed", "biofuel"):
        for m2 in months:
            def add_one(c2, t2, key=key, m2=m2):
                a = np.asarray(t2[key].kcals, float).copy()
                a[m2] += 0.2 * needs
                t2[key].kcals = a

            out.append(("%s_charge:month%d+20%%_of_needs" % (key, m2), "less", add_one))

        def add_all(c2, t2, key=key):
            t2[key].kcals = np.asarray(t2[key].kcals, float) + 0.02 * needs

        out.append(("%s_charge:all_months+2%%_of_needs" % key, "less", add_all))
    for k in (1e-3, 0.1, 7.0, 1e3):
        if not (3e5 <= c["POP"] * k <= 1e10):
            continue

        def scale(c2, t2, k=k):
            c2["POP"] *= k
            c2["POP_BILLIONS"] *= k
            c2["BILLION_KCALS_NEEDED"] *= k
            c2["stored_food"].initial_available = c2["stored_food"].initial_available * k
            c2["INITIAL_SEAWEED"] *= k
            c2["INITIAL_BUILT_SEAWEED_AREA"] *= k
            t2["built_area"] = np.asarray(t2["built_area"], float) * k
            for key in ("methane_scp", "cellulosic_sugar", "feed", "biofuel", "greenhouse_crops"):
                t2[key] = t2[key] * k
            t2["outdoor_crops"].production = t2["outdoor_crops"].production * k
            t2["fish"].to_humans = t2["fish"].to_humans * k
            t2["milk_kcals"] = np.asarray(t2["milk_kcals"], float) * k
            set_meat(c2, t2, np.asarray(t2["each_month_meat_slaughtered"].kcals, float) * k)

        out.append(("scale:x%g" % k, "scale", scale))
    return out


def run_case(case, tier):
    tr = capture.run_pipeline(case)
    rnd = random.Random(hash((case["iso"], case.get("gen_seed", 0))) & 0xFFFFFFFF)
    viol = []
    inst = []
    for k, lp in enumerate(tr.lps):
        if lp.kind != "to_humans":
            continue
        c0, t0 = lp.consts, lp.time_consts
        z0 = solve(copy.deepcopy(c0), copy.deepcopy(t0))
        rec = {"round": k + 1, "z_captured": lp.objective, "z_resolved": z0, "results": {}}
        if z0 is None or abs(z0 - lp.objective) > TOL * max(1.0, abs(lp.objective)):
            rec["base_mismatch"] = True
            viol.append({"mech": "resolve_differs_from_captured_optimum", "msg": "%s round %d: re-solving the captured inputs gives %r, the run reported %.8g" % (case["iso"], k + 1, z0, lp.objective),
                         "data": {"iso": case["iso"], "round": k + 1}})
            inst.append(rec)
            continue
        tol = TOL * max(1.0, abs(z0))
        zh0, st0 = pulp_highs.first_stage_optimum(copy.deepcopy(c0), copy.deepcopy(t0))
        rec["z_model_highs"] = zh0
        if zh0 is not None and abs(zh0 - z0) > tol:
            viol.append({"mech": "solver_returns_suboptimal_point:base", "msg": "%s round %d: CBC reports %.8g, the same model solved by HiGHS gives %.8g" % (case["iso"], k + 1, z0, zh0),
                         "data": {"iso": case["iso"], "round": k + 1, "family": "base"}})
        tolh = TOL_H * max(1.0, abs(zh0)) if zh0 is not None else None
        for name, kind, mutate in perturbations(c0, t0, rnd, many_months=bool(case.get("many_charge_months")) and float(np.sum(t0["feed"].kcals) + np.sum(t0["biofuel"].kcals)) > 0):
            c2, t2 = copy.deepcopy(c0), copy.deepcopy(t0)
            mutate(c2, t2)
            z = solve(copy.deepcopy(c2), copy.deepcopy(t2))
            zh, sth = pulp_highs.first_stage_optimum(c2, t2) if zh0 is not None else (None, None)
            rec["results"][name] = z
            rec.setdefault("results_model_highs", {})[name] = zh
            fam = name.split(":")[0]
            data = {"iso": case["iso"], "round": k + 1, "perturbation": name, "family": fam, "z": z0, "z_perturbed": z, "z_model_highs": zh0, "z_model_highs_perturbed": zh, "tag": case.get("tag")}
            if z is not None:
                rel = abs(z - z0) / max(1.0, abs(z0))
                data["relative_change_reported"] = rel
                data["size"] = "within_1e-3_relative" if rel <= 1e-3 else "substantial"
            else:
                data["size"] = "solve_failed"
            # (b) the model the code builds, solved exactly: decides whether the *formulation* obeys the law
            formulation_bad = None
            if zh0 is not None:
                if zh is None:
                    formulation_bad = kind != "less" and sth == 2
                elif kind == "more":
                    formulation_bad = zh < zh0 - tolh
                elif kind == "less":
                    formulation_bad = zh > zh0 + tolh
                else:
                    formulation_bad = abs(zh - zh0) > tolh
            # (a) the value the real optimiser reports
            reported_bad, what = False, ""
            if z is None:
                reported_bad, what = kind != "less", "makes the optimisation fail"
            elif kind == "more" and z < z0 - tol:
                reported_bad, what = True, "lowers percent fed %.8g -> %.8g" % (z0, z)
            elif kind == "less" and z > z0 + tol:
                reported_bad, what = True, "raises percent fed %.8g -> %.8g" % (z0, z)
            elif kind == "scale" and abs(z - z0) > tol:
                reported_bad, what = True, "changes percent fed %.8g -> %.8g" % (z0, z)
            if formulation_bad and not reported_bad:
                rec["highs_only_disagreements"] = rec.get("highs_only_disagreements", 0) + 1
            if formulation_bad and reported_bad:
                mech = {"more": "more_supply_feeds_fewer:", "less": "higher_charge_feeds_more:", "scale": "scale_changes_percent_fed:"}[kind] + fam
                viol.append({"mech": mech, "msg": "%s round %d: %s moves the exact optimum of the model %.9g -> %r (reported %.8g -> %r)" % (case["iso"], k + 1, name, zh0, zh, z0, z), "data": data})
            elif reported_bad and formulation_bad is not None:
                viol.append({"mech": "solver_returns_suboptimal_point:" + kind, "msg": "%s round %d: %s %s although the model's exact optimum goes %.9g -> %r" % (case["iso"], k + 1, name, what, zh0, zh), "data": data})
        inst.append(rec)
    strict = sum(1 for r in inst for n, z in r["results"].items() if z is not None and abs(z - r["z_resolved"]) > TOL * max(1.0, abs(r["z_resolved"])))
    return {"viol": viol, "obs": {"iso": case["iso"], "tag": case.get("tag"), "instances": inst, "audited": sum(len(r["results"]) for r in inst),
                                   "strict_changes": strict, "run_failed": capture.failure_class(tr)}}


def summarize(cases, records, tier):
    ok = [r for r in records if r.get("status") == "ok"]
    fams = collections.Counter()
    strict = collections.Counter()
    ninst = 0
    for r in ok:
        for i in r["obs"]["instances"]:
            ninst += 1
            for n, z in i["results"].items():
                f = n.split(":")[0]
                fams[f] += 1
                if z is not None and i["z_resolved"] is not None and abs(z - i["z_resolved"]) > TOL * max(1.0, abs(i["z_resolved"])):
                    strict[f] += 1
    cov = {
        "evaluations": int(sum(r["obs"]["audited"] for r in ok)),
        "distinct_nontrivial": int(sum(r["obs"]["strict_changes"] for r in ok)),
        "rule": "one case = one real three-round run; every human-maximising LP it solved is an instance; evaluations = perturbed re-solves; non-trivial = a perturbation that actually moved the optimum beyond the tolerance (a relation that holds with equality says little); "
                "each (instance, perturbation) is distinct",
        "samples": [{"iso": r["obs"]["iso"], "tag": r["obs"]["tag"], "instances": [{"round": i["round"], "z": i["z_resolved"], "some_results": dict(list(i["results"].items())[:6])} for i in r["obs"]["instances"]]}
                    for r in ok[:: max(1, len(ok) // 4)]][:4] or [{"note": "none"}],
        "instances": ninst, "perturbations_by_family": dict(fams), "perturbations_that_moved_the_optimum_by_family": dict(strict),
        "relations_failing_only_on_the_highs_value": int(sum(i.get("highs_only_disagreements", 0) for r in ok for i in r["obs"]["instances"])),
        "runs": len(ok), "runs_failed": sum(1 for r in ok if r["obs"].get("run_failed")),
    }
    if ninst < 10:
        cov["inconclusive_reason"] = "only %d instances" % ninst
    for need in ("crops", "stored_food", "scale", "feed_charge", "meat"):
        if fams.get(need, 0) == 0:
            cov["inconclusive_reason"] = "perturbation family never applied: " + need
    return cov
