"""C03 — humans come before animal feed and biofuel."""
import collections
import random

import numpy as np

from props import pipeline
from vlib import workload

ASSUMPTIONS = [
    "tolerance 0.1 percent-fed units on the relations between p1, p3 and the threshold (the repository's own, disabled, validator tolerance)",
    "feed/biofuel 'drawn from human-edible food' = sum over foods of the optimiser's feed / biofuel allocation variables (seaweed in kcal)",
    "shut-off months taken from an independent table of the documented option values",
]
SHUTOFF = {  # option -> (feed months, biofuel months, threshold)
    "immediate": (0, 0, 100), "one_month_delayed_shutoff": (1, 1, 100), "short_delayed_shutoff": (2, 1, 100),
    "long_delayed_shutoff": (3, 2, 100), "continued": (None, None, 100), "continued_after_10_percent_fed": (None, None, 10),
    "long_delayed_shutoff_after_10_percent_fed": (12, 6, 10),
}
THRESHOLDS = [0, 5, 10, 25, 50, 75, 90, 100]


def gen_cases(tier, seed):
    rnd = random.Random(300 + seed)
    isos = workload.all_isos()
    hostile = workload.rotate([i for i in workload.HOSTILE if i in isos] + [i for i in workload.zero_rows(seed, 6) if i not in workload.HOSTILE], seed * 3)
    cases = []
    k = 0
    combos = [(s, r, c) for s in workload.FAMILIES_COMMON["shutoff"] for r in workload.FAMILIES_COMMON["ratio_stocks_untouched"]
              for c in workload.FAMILIES_COMMON["cull"]]
    climates = [dict(), dict(grasses="baseline", crop_disruption="zero", fish="baseline", nutrition="baseline")]
    for (s, r, c) in combos:
        for ci, clim in enumerate(climates):
            if tier == "quick":
                sel = [hostile[k % len(hostile)]]
            else:
                sel = sorted(set(rnd.sample(isos, 14)) | {hostile[k % len(hostile)]})
            k += 1
            for iso in sel:
                o = workload.base_country(shutoff=s, ratio_stocks_untouched=r, cull=c,
                                          meat_strategy=rnd.choice(workload.FAMILIES_COMMON["meat_strategy"]),
                                          scenario=rnd.choice(["no_resilient_foods", "no_resilient_foods", "all_resilient_foods", "industrial_foods", "seaweed"]),
                                          NMONTHS=rnd.choice([120, 120, 72, 48]), **clim)
                cases.append(workload.pipeline_case(iso, o, "%s/%s/%s/%s" % (s, r, c, "nw" if ci == 0 else "base")))
    # food exporters reach the threshold without feed even in nuclear winter: the branch "no-feed round >= threshold" with culled meat
    # not eaten is where the round-3 offset for extra meat must not apply (defect repaired in 399cdce)
    exporters = [i for i in ("ARG", "USA", "BRA", "AUS", "CAN", "PRY", "URY", "KAZ", "UKR", "RUS", "FRA", "THA") if i in isos]
    for j, iso in enumerate(workload.rotate(exporters, seed)[: (8 if tier == "quick" else 12)]):
        for cull in (("dont_eat_culled",) if tier == "quick" else ("dont_eat_culled", "do_eat_culled")):
            o = workload.base_country(shutoff=["continued", "long_delayed_shutoff", "continued_after_10_percent_fed"][j % 3], cull=cull,
                                      ratio_stocks_untouched=["baseline", "zero"][j % 2], NMONTHS=[48, 120, 72][j % 3],
                                      meat_strategy=workload.FAMILIES_COMMON["meat_strategy"][(j + seed) % 3])
            cases.append(workload.pipeline_case(iso, o, "exporter/%s/%s" % (o["shutoff"], cull)))
    for iso in ("ARG", "BRA", "URY"):
        for ms in workload.FAMILIES_COMMON["meat_strategy"]:
            for N in ((48,) if tier == "quick" else (48, 120)):
                o = workload.base_country(shutoff="continued", cull="dont_eat_culled", ratio_stocks_untouched="baseline", NMONTHS=N, meat_strategy=ms)
                cases.append(workload.pipeline_case(iso, o, "exporter_continued/%s/%d" % (ms, N)))
    # no stocks at the start: the first month has nothing but its own harvest, so it is alone the worst month of many countries while
    # later months have surplus - the situation in which only the month-to-month ordering of feed keeps food away from animals.
    # Every country of the table, present-day climate and continued demand; the thorough tier adds the other climate and shut-offs.
    for iso in isos:
        variants = [("continued", 1)] if tier == "quick" else [("continued", 1), ("continued", 0), ("long_delayed_shutoff", 1), ("continued_after_10_percent_fed", 1)]
        for sh, ci in variants:
            o = workload.base_country(shutoff=sh, stored_food="zero", ratio_stocks_untouched=rnd.choice(["zero", "baseline"]), NMONTHS=rnd.choice([120, 72, 48]), **climates[ci])
            cases.append(workload.pipeline_case(iso, o, "no_initial_stocks/%s/%s" % (sh, "nw" if ci == 0 else "base")))
    # herds that take no human-edible feed at all (only grazers left, ample pasture) next to a running biofuel demand: the feed side
    # of round 2 is idle, biofuel alone competes with people
    nonrum = ["chicken", "pig", "rabbit", "duck", "goose", "turkey", "other_rodents", "mule", "horse", "asses", "camelids"]
    for j, iso in enumerate(workload.rotate(["DEU", "FRA", "USA", "GBR", "POL", "ITA", "ESP", "CAN"], seed)[: (3 if tier == "quick" else 8)]):
        o = workload.base_country(shutoff=["continued", "long_delayed_shutoff", "continued_after_10_percent_fed"][j % 3], grasses="baseline", GRASSES_PRODUCTION_MULTIPLIER=10,
                                  NMONTHS=[120, 72][j % 2])
        for sp in nonrum:
            o[sp + "_head"] = 0
        cases.append(workload.pipeline_case(iso, o, "pasture_only_herds/%s" % o["shutoff"]))
    # factory-made foods (single-cell protein, cellulosic sugar) arriving while feed is still demanded and crops are disrupted: round 2
    # plans their share in feed, round 3 charges the feed it granted - the people's ration round 2 pinned must survive that;
    # cold, industrialised countries (large factory output next to the crops left) with a low or a shipped threshold
    cold = [i for i in ("FIN", "CAN", "SWE", "NOR", "RUS", "USA", "DEU", "JPN", "KOR", "GBR", "PRT", "URY", "POL", "NLD", "BEL", "AUT", "CHE", "DNK", "CZE", "FRA") if i in isos]
    for j, iso in enumerate(workload.rotate(cold, seed * 5)[: (16 if tier == "quick" else 20)]):
        for rep in range(1 if tier == "quick" else 8):
            o = workload.base_country(scenario=["industrial_foods", "methane_scp", "cellulosic_sugar", "all_resilient_foods", "all_resilient_foods_and_more_area"][(j + rep + seed) % 5],
                                      shutoff=["continued_after_10_percent_fed", "continued", "long_delayed_shutoff_after_10_percent_fed"][(j + rep) % 3], NMONTHS=[72, 120, 48][(j + rep // 3) % 3],
                                      meat_strategy=workload.FAMILIES_COMMON["meat_strategy"][(j + rep) % 3])
            if o["shutoff"] not in workload.FAMILIES_COMMON["shutoff"]:
                o["shutoff"] = "continued_after_10_percent_fed"
            o.update(cull=["dont_eat_culled", "do_eat_culled"][(j + rep) % 2], fish=rnd.choice(["zero", "nuclear_winter"]), nutrition=rnd.choice(["baseline", "catastrophe"]),
                     waste=rnd.choice(["doubled_prices_in_country", "baseline_in_country", "tripled_prices_in_country"]))
            if (j + rep) % 2 == 0:
                # the largest feed demand the options allow (herds kept at their size, their meat not eaten) next to sugar factories
                o.update(cull="dont_eat_culled", meat_strategy="baseline_breeding", shutoff="continued_after_10_percent_fed", fish=["zero", "zero", "nuclear_winter"][(j // 2 + rep) % 3],
                         scenario=["industrial_foods", "cellulosic_sugar", "all_resilient_foods"][(j // 2 + rep + seed) % 3])
            if rep % 2:
                o["MINIMUM_PERCENT_FED_BEFORE_NONHUMAN_CONSUMPTION_ALLOWED"] = [5, 15, 25, 10][(j + rep) % 4]
            cases.append(workload.pipeline_case(iso, o, "factory_foods_with_feed/%s/%s#%d" % (o["scenario"], o["shutoff"], rep)))
    # no harvest at all (crop_disruption: all_crops_die_instantly): stored food is the only staple, and whatever round 2 hands to
    # animals comes straight out of it; small countries (the optimiser pins their pre-determined consumption with its own,
    # looser, tolerances) and large ones, every schedule that demands feed
    pops = {r["iso3"]: float(r["population"]) for r in workload.country_table()}
    small = sorted(i for i in isos if pops.get(i, 1e12) < 1e7)
    rs = random.Random(4242 + seed)
    pick = rs.sample(small, 9 if tier == "quick" else 60) + rs.sample([i for i in isos if i not in small], 3 if tier == "quick" else 20)
    for j, iso in enumerate(pick):
        o = workload.base_country(crop_disruption="all_crops_die_instantly", stored_food="baseline",
                                  shutoff=["continued", "long_delayed_shutoff", "short_delayed_shutoff", "continued_after_10_percent_fed", "one_month_delayed_shutoff"][j % 5],
                                  ratio_stocks_untouched=["zero", "baseline"][j % 2], cull=["do_eat_culled", "dont_eat_culled"][(j // 2) % 2], NMONTHS=[72, 120, 48][j % 3],
                                  grasses=["country_nuclear_winter", "all_crops_die_instantly"][(j // 3) % 2] if "all_crops_die_instantly" in workload.families("country")["grasses"] else "country_nuclear_winter")
        cases.append(workload.pipeline_case(iso, o, "no_harvest/%s/%s" % (o["shutoff"], o["cull"])))
    for T in THRESHOLDS:
        for j in range(4 if tier == "quick" else 24):
            o = workload.base_country(shutoff=rnd.choice(["continued", "long_delayed_shutoff", "continued_after_10_percent_fed", "short_delayed_shutoff"]),
                                      ratio_stocks_untouched=rnd.choice(workload.FAMILIES_COMMON["ratio_stocks_untouched"]),
                                      meat_strategy=rnd.choice(workload.FAMILIES_COMMON["meat_strategy"]),
                                      MINIMUM_PERCENT_FED_BEFORE_NONHUMAN_CONSUMPTION_ALLOWED=T, **climates[j % 2])
            cases.append(workload.pipeline_case(rnd.choice(isos), o, "T=%s#%d" % (T, j)))
    for j in range(8 if tier == "quick" else 60):
        o = workload.random_options(rnd)
        o["MINIMUM_PERCENT_FED_BEFORE_NONHUMAN_CONSUMPTION_ALLOWED"] = round(rnd.uniform(0, 100), 1)
        cases.append(workload.pipeline_case(rnd.choice(isos), o, "randomT#%d" % j))
    for g in workload.manuscript_presets():
        if workload.is_global(g[1]):
            cases.append(workload.pipeline_case("WOR", g[1], g[0]))
    for n, c in enumerate(cases):
        c["id"] = "%s/%s#%d" % (c["iso"], c["tag"], n)
    return cases


def _alloc(lp, tag):
    c = lp.consts
    tot = np.zeros(lp.N)
    for name, k in (("stored_food_", 1), ("crops_food_", 1), ("seaweed_", c["SEAWEED_KCALS"]), ("cellulosic_sugar_", 1), ("methane_scp_", 1)):
        if lp.has(name + tag):
            tot += np.nan_to_num(lp.val(name + tag)) * k
    return tot


def monitor(tr, case):
    viol = []

    def bad(mech, msg, **d):
        d.update(iso=case["iso"], tag=case.get("tag"), regime=case["opts"].get("ratio_stocks_untouched"), shutoff=case["opts"].get("shutoff"))
        viol.append({"mech": mech, "msg": "%s %s" % (case["iso"], msg), "data": d})

    if tr.error is not None or tr.result is None or tr.first is None or not tr.lps:
        return viol, {"audited": 0}
    ret = tr.first[1]
    feed_dem = np.asarray(ret[4].in_units_bil_kcals_thou_tons_thou_tons_per_month().kcals, float)
    bio_dem = np.asarray(ret[5].in_units_bil_kcals_thou_tons_thou_tons_per_month().kcals, float)
    last = tr.lps[-1]
    c = last.consts
    N = last.N
    T = float(c["inputs"]["MINIMUM_PERCENT_FED_BEFORE_NONHUMAN_CONSUMPTION_ALLOWED"])
    fm, bm, Topt = SHUTOFF[case["opts"]["shutoff"]]
    want_T = float(case["opts"].get("MINIMUM_PERCENT_FED_BEFORE_NONHUMAN_CONSUMPTION_ALLOWED", Topt))
    altered = len(tr.setdep) > 0 and False
    fm = N if fm is None else fm
    bm = N if bm is None else bm
    # the repository rewrites the shutoff of three known-bad (country, scenario) combinations to "immediate"
    rewritten = (c["inputs"]["DELAY"]["FEED_SHUTOFF_MONTHS"] == 0 and fm != 0 and case["iso"] in ("SLV", "ALB", "ECU"))
    if rewritten:
        fm, bm, want_T = 0, 0, 100.0
    if abs(T - want_T) > 1e-12:
        bad("threshold_not_as_configured", "threshold in effect %.6g, configured %.6g" % (T, want_T))
    fac = 1e9 / (30.0 * float(c["inputs"]["NUTRITION"]["KCALS_DAILY"]) * float(c["inputs"]["POP"])) * 100.0
    p3 = float(tr.result.percent_people_fed)
    full = len(tr.lps) == 3
    p1 = float(tr.lps[0].interp.percent_people_fed) if len(tr.lps) >= 2 and tr.lps[0].interp is not None else None
    obs = {"audited": 1, "p1": p1, "p3": p3, "T": T, "rounds": len(tr.lps), "feed_demand_total": float(feed_dem.sum()),
           "bucket": "three_rounds" if full else ("round2_aborted" if len(tr.lps) == 2 else "rounds_1_2_skipped")}
    f3, b3 = _alloc(last, "feed"), _alloc(last, "biofuel")
    obs["feed_final_total_pct"] = float((f3 + b3).sum() * fac)
    # (i)
    if p3 < T - 0.1:
        obs["branch"] = "starving"
        nh = (f3 + b3) * fac
        if nh.max() > 0.1:
            m = int(nh.argmax())
            # two different mechanisms: (a) the final result is as good as the no-feed round and the feed comes from months that had
            # more than the worst month (round 2 pins people at the worst-month level in every month and hands the rest to animals,
            # less 20 kcal/person/day); (b) feed actually costs people food (final result below the no-feed round)
            harmless = p1 is not None and p3 >= p1 - 0.1
            fedm = [int(x) for x in np.where(nh > 0.1)[0]]
            try:
                ir = tr.result
                s3 = sum(np.asarray(getattr(ir, n).kcals, float) for n in ("stored_food", "outdoor_crops", "seaweed", "cell_sugar", "scp", "greenhouse", "fish", "meat", "milk"))
                worst = [int(x) for x in np.where(s3 <= s3.min() + 0.05)[0]]
            except Exception:
                worst = []
            big = float(nh.max())
            diag = {"storage": "no_storage_between_years" if not bool(c["STORE_FOOD_BETWEEN_YEARS"]) else "storage_between_years",
                    "size": ("residual_below_half_a_percent_of_needs" if big <= 0.5 else
                             "residual_below_one_percent_in_the_single_month_of_a_one_month_shutoff" if (big <= 1.0 and len(fedm) == 1 and fedm[0] == 0 and case["opts"].get("shutoff") == "one_month_delayed_shutoff")
                             else "substantial"),
                    "months_with_feed": fedm[:6] + fedm[-2:], "n_months_with_feed": len(fedm), "worst_months": worst[:6], "n_worst": len(worst),
                    "feed_only_before_first_worst_month": bool(worst and fedm and max(fedm) < worst[0]),
                    "nonincreasing": bool(np.all(np.diff(nh) <= 1e-6 * max(1.0, nh.max())))}
            bad(("feed_from_surplus_months_while_below_threshold" if harmless else "feed_or_biofuel_while_below_threshold"),
                "final result feeds %.3f%% < threshold %.3g%% yet month %d gives %.3f%%-equivalent to feed+biofuel" % (p3, T, m, nh[m]),
                month=m, p3=p3, p1=p1, T=T, amount_pct=float(nh.max()), store_between_years=bool(c["STORE_FOOD_BETWEEN_YEARS"]), **diag)
        if p1 is not None and p3 < p1 - 0.1:
            bad("final_result_below_no_feed_round", "final %.4f%% < no-feed round %.4f%% while below the threshold %.3g%%" % (p3, p1, T), p1=p1, p3=p3, T=T)
    else:
        obs["branch"] = "fed"
    # (ii)
    if p1 is not None and p1 >= T and p3 < T - 0.1:
        bad("final_result_below_threshold_although_reachable", "no-feed round reaches %.4f%% >= threshold %.3g%% but the final result is %.4f%%" % (p1, T, p3), p1=p1, p3=p3, T=T)
    # (iii)
    for k, lp in enumerate(tr.lps):
        f, b = _alloc(lp, "feed"), _alloc(lp, "biofuel")
        for nm, got, dem, sm in (("feed", f, feed_dem, fm), ("biofuel", b, bio_dem, bm)):
            tol = 1e-6 * max(1.0, dem.max()) + 1e-6
            over = got - dem * (1 + 1e-4)
            if over.max() > tol:
                m = int(over.argmax())
                bad(nm + "_exceeds_demand_schedule", "round %d month %d: %s %.8g exceeds demand %.8g" % (k + 1, m, nm, got[m], dem[m]), round=k + 1, month=m)
            late = got[sm:]
            if late.size and late.max() > tol:
                m = sm + int(late.argmax())
                bad(nm + "_after_shutoff", "round %d month %d: %s %.8g after the shut-off month %d" % (k + 1, m, nm, got[m], sm), round=k + 1, month=m)
        # the charge of human rounds is what they are told to give away: must also respect the schedule
        if lp.kind == "to_humans":
            for nm, ch, dem, sm in (("feed", np.asarray(lp.time_consts["feed"].kcals, float), feed_dem, fm),
                                    ("biofuel", np.asarray(lp.time_consts["biofuel"].kcals, float), bio_dem, bm)):
                tol = 1e-6 * max(1.0, dem.max()) + 1e-6
                if (ch - dem * (1 + 1e-4)).max() > tol:
                    m = int((ch - dem).argmax())
                    bad(nm + "_charge_exceeds_demand_schedule", "round %d month %d: charged %s %.8g exceeds demand %.8g" % (k + 1, m, nm, ch[m], dem[m]), round=k + 1, month=m)
                if ch[sm:].size and ch[sm:].max() > tol:
                    bad(nm + "_charge_after_shutoff", "round %d: %s charged after the shut-off month %d" % (k + 1, nm, sm), round=k + 1)
                # the fat and protein carried by the charge: none where no calories are charged (in particular after the shut-off)
                for comp in ("fat", "protein"):
                    cv = np.asarray(getattr(lp.time_consts[nm], comp), float)
                    if cv.shape == ch.shape:
                        # (before the shut-off the fat and protein of the charge come from LP variables of their own that nothing ties to
                        # the calories when fat and protein are not required - MNG: 1.9e-4 thousand tons of fat with no calories in
                        # months 0-1 under continued demand - so only the months the statement speaks of are examined)
                        stray = np.abs(cv) * (np.abs(ch) <= tol) * (np.arange(len(cv)) >= sm)
                        # calories up to `tol` count as none; they can carry at most 0.25 thousand tons per billion kcal (pure protein)
                        if stray.max() > 0.25 * tol + 1e-6 * max(1.0, float(np.abs(cv).max())):
                            m = int(stray.argmax())
                            bad(nm + "_charge_nutrients_after_shutoff", "round %d month %d: %s charge carries %.6g thousand tons of %s but no calories%s" % (
                                k + 1, m, nm, cv[m], comp, " (after the shut-off month %d)" % sm if m >= sm else ""), round=k + 1, month=m, nutrient=comp)
    for nm, dem, sm in (("feed", feed_dem, fm), ("biofuel", bio_dem, bm)):
        if dem[sm:].size and dem[sm:].max() > 0:
            bad(nm + "_demand_after_shutoff", "%s demand schedule non-zero after month %d" % (nm, sm))
    return viol, obs


def run_case(case, tier):
    return pipeline.run(case, monitor)


def summarize(cases, records, tier):
    cov, ok, audited = pipeline.base_summary(
        cases, records, lambda r: r["obs"].get("feed_demand_total", 0) > 0 and r["obs"].get("rounds", 0) >= 2,
        "one case = one three-round run over shut-off schedule x stock regime x cull x climate (+ threshold sweep 0..100, random, global presets); evaluations = runs audited; "
        "non-trivial = non-zero demand schedule and at least two rounds solved; distinct by (iso, option vector)",
        lambda r: {k: r["obs"].get(k) for k in ("iso", "tag", "p1", "p3", "T", "bucket", "branch", "feed_final_total_pct")},
        min_audited=max(10, len(cases) // 3))
    b = collections.Counter((r["obs"].get("bucket"), r["obs"].get("branch")) for r in audited)
    cov["runs_by_bucket_and_branch"] = {"%s/%s" % k: v for k, v in b.items()}
    cov["runs_with_p1_at_or_above_threshold"] = sum(1 for r in audited if r["obs"].get("p1") is not None and r["obs"]["p1"] >= r["obs"]["T"])
    cov["runs_starving_with_positive_demand"] = sum(1 for r in audited if r["obs"].get("branch") == "starving" and r["obs"].get("feed_demand_total", 0) > 0)
    cov["thresholds_seen"] = sorted({r["obs"]["T"] for r in audited})[:40]
    for need in ("runs_with_p1_at_or_above_threshold", "runs_starving_with_positive_demand"):
        if cov[need] == 0 and "inconclusive_reason" not in cov:
            cov["inconclusive_reason"] = need + " = 0"
    return cov
