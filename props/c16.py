"""C16 — every country completes under every documented preset.

Driver = the preset grid itself.  Monitor = outcome of the real run with the
repository's validation left on: no exception / sys.exit, finite headline >= 0."""
import collections
import copy
import math
import random

from vlib import capture, workload

ASSUMPTIONS = [
    "manuscript presets are extracted from plot_manuscript_figures.py itself by executing its recalculate_plot_* functions with the runner entry points replaced by recorders, and are run exactly as the script submits them (incl. its country lists)",
    "the yaml entry point (src/scenarios/run_scenarios_from_yaml.py) is driven with the shipped files (two of them run for real) and generated configurations; every simulation must reach the model once, with the options, NMONTHS, country list (string -> one-element list, missing -> all countries) and mode flags of the configuration",
    "a run is successful iff run_model_no_trade / run_and_analyze_scenario returns without raising and the headline is finite and >= 0",
]


def presets(tier, seed=0):
    """-> list of (name, options, countries or None).  Manuscript presets are taken from the shipped script itself."""
    pres = [(n, o, None) for n, o in workload.yaml_presets()]
    pres += [(n, o, cl) for n, o, cl in workload.script_presets()]
    named = {n: o for n, o, _ in pres}
    glob = [n for n, o, cl in pres if workload.is_global(o)]
    if tier == "thorough":
        anchors = ["yaml:argentina:argentina_net_nuclear_resilient"] + [n for n in named if n.startswith("script:fig1:0:")]
        for anchor in anchors:
            pres += [(n, o, None) for n, o in workload.single_option_variations(anchor, named[anchor]) if "scale" in named[anchor]]
        ganchors = glob
    else:
        ganchors = workload.rotate(glob, seed)[:2]
        # single-option variations of the shipped anchor for a rotating pair of countries
        a = "yaml:argentina:argentina_net_nuclear_resilient"
        isos = workload.all_isos()
        pair = [workload.rotate([i for i in workload.HOSTILE if i in isos], seed * 7)[0], workload.rotate(isos, seed * 11 + 3)[0]]
        pres += [(n, o, pair) for n, o in workload.single_option_variations(a, named[a])]
    # single-option variations of EVERY country-scale preset, each for a seeded sample of countries (the full grid of
    # 164 countries x 36 presets x ~40 variations is beyond a run; thorough: 12 countries per variation, quick: 160 cells in all)
    # (the sample does not depend on the seed: the cells explored are a fixed set, so that the ones that fail on the unchanged
    # tree can be listed one by one in known_findings.json; the quick tier draws its 160 cells from that set with the seed)
    rs = random.Random(97)
    isos_all = workload.all_isos()
    cvar = []
    for n, o, cl in list(pres):
        if workload.is_global(o) or "~" in n or "scale" not in o:
            continue
        for vn, vo in workload.single_option_variations(n, o):
            cvar.append((vn, vo))
    fixed = [(vn, vo, rs.sample(isos_all, 12)) for vn, vo in cvar]
    if tier == "thorough":
        pres += fixed
    else:
        rq = random.Random(seed * 97 + 5)
        pres += [(vn, vo, [rq.choice(cl)]) for vn, vo, cl in rq.sample(fixed, min(160, len(fixed)))]
    # single-option variations of the world-scale presets (every documented global value of every family)
    for anchor in ganchors:
        pres += [(n, o, ["WOR"]) for n, o in workload.single_option_variations(anchor, named[anchor])]
    return pres


def gen_cases(tier, seed):
    isos = workload.all_isos()
    pres = presets(tier, seed)
    cases = []
    hostile = [i for i in workload.HOSTILE if i in isos]
    for pi, (name, o, cl) in enumerate(pres):
        if workload.is_global(o) or cl == ["WOR"]:
            c = {"kind": "pipeline", "iso": "WOR", "opts": copy.deepcopy(o), "tag": name}
            cases.append(c)
            continue
        if cl:
            sel = cl  # the script runs this preset for a fixed list of countries
        elif tier == "thorough":
            sel = isos
        else:
            # all countries for two presets (rotating with the seed), hostile subset for the rest
            full = {(seed * 2) % len(pres), (seed * 2 + 5) % len(pres)}
            if pi in full:
                sel = isos
            else:  # hostile subset + a seeded sample of the other countries, different for every preset
                rnd = random.Random(seed * 1000 + pi)
                sel = hostile + [i for i in workload.zero_rows(seed + pi, 4) if i not in hostile]
                sel = sel + rnd.sample([i for i in isos if i not in sel], 10)
        for iso in sel:
            cases.append({"kind": "pipeline", "iso": iso, "opts": copy.deepcopy(o), "tag": name})
    for n, c in enumerate(cases):
        c["id"] = "%s|%s" % (c["iso"], c["tag"])
    # runs made the way the report scripts and the README make them (figures / pptx on): a sample of the cells above, and for
    # the countries with the most animal types in the head-count table (the report draws one line per type) two presets each
    rp = random.Random(seed * 31 + 7)
    plotted = rp.sample([c for c in cases if c["iso"] != "WOR"], 40 if tier == "quick" else 400)
    try:
        import pandas as pd

        from vlib import env as _env

        hs = pd.read_csv(_env.REPO + "/data/no_food_trade/animal_feed_data/FAOSTAT_head_and_slaughter.csv", index_col=0)
        heads = hs[[c for c in hs.columns if c.endswith("_head")]]
        many = [i for i in (heads > 0).sum(axis=1).sort_values(ascending=False).index if i in isos][:8]
    except Exception:
        many = []
    base_p = [x for x in pres if not workload.is_global(x[1]) and "~" not in x[0]]
    for iso in many:
        for name, o, cl in rp.sample(base_p, 2):
            plotted.append({"kind": "pipeline", "iso": iso, "opts": copy.deepcopy(o), "tag": name})
    for c in plotted:
        c2 = dict(copy.deepcopy(c), plots=True)
        c2["tag"] = c["tag"] + "+report"
        c2["id"] = "%s|%s" % (c2["iso"], c2["tag"])
        cases.append(c2)
    # the yaml-driven entry point itself (what run_scenarios_from_yaml.sh calls): the two small shipped files are run for real, in both
    # the plain and the web-interface mode; the large file and generated configurations are driven with the model call recorded only
    ycases = [("argentina.yaml", True, False), ("baseline_USA.yaml", True, True), ("argentina.yaml", False, True), ("eu_countries.yaml", False, False)]
    for fn, real, web in ycases:
        cases.append({"kind": "yaml_entry", "file": fn, "real": real, "web": web, "iso": "YAML", "tag": "entry:%s:%s:%s" % (fn, "real" if real else "recorded", "web" if web else "plain"),
                      "id": "YAML|%s|%s|%s" % (fn, real, web)})
    for k in range(8 if tier == "quick" else 60):
        cases.append({"kind": "yaml_entry", "file": None, "gen_seed": seed * 53 + k, "real": False, "web": bool(k % 2), "iso": "YAML", "tag": "entry:generated#%d" % k, "id": "YAML|generated#%d" % k})
    return cases


def yaml_entry(case):
    """Drive src/scenarios/run_scenarios_from_yaml.py the way the shell script does and compare what reaches the model with the file."""
    import contextlib
    import io
    import os

    import yaml

    from src.scenarios import run_scenarios_from_yaml as ry
    from src.scenarios.run_model_no_trade import ScenarioRunnerNoTrade
    from vlib import env

    viol = []

    def bad(mech, msg, **d):
        d.update(iso="YAML", preset=case["tag"], cell="YAML|" + case["tag"], failure_class=d.get("failure_class"))
        viol.append({"mech": mech, "msg": "%s: %s" % (case["tag"], msg), "data": d})

    if case["file"]:
        cfg = yaml.safe_load(open(os.path.join(env.REPO, "scenarios", case["file"])))
        loaded = ry.load_config_data(case["file"])
        if loaded != cfg:
            bad("yaml_loaded_differs_from_file", "load_config_data returns something else than the file holds")
    else:
        rnd = random.Random(case["gen_seed"])
        isos = workload.all_isos()
        form = rnd.choice(["string", "list", "missing", "mixed_list"])
        settings = {"NMONTHS": rnd.choice([120, 72, 48])}
        if form == "string":
            settings["countries"] = rnd.choice(isos)
        elif form == "list":
            settings["countries"] = rnd.sample(isos, rnd.choice([1, 3, 5]))
        elif form == "mixed_list":
            settings["countries"] = ["!" + c for c in rnd.sample(isos, 4)]
        sims = {}
        for j in range(rnd.choice([1, 2, 4])):
            o = workload.random_options(rnd)
            o["title"] = "generated simulation %d v1.%d" % (j, j)
            o.pop("NMONTHS", None)  # as in the shipped files: the horizon is in the settings block
            sims["sim_%d" % j] = o
        if len(sims) > 1 and rnd.random() < 0.6:
            # one simulation (not the last) carries a horizon of its own next to the one in the settings block: whatever the
            # entry point makes of that entry, the other simulations run with the settings' horizon
            own = rnd.choice(list(sims)[:-1])
            sims[own]["NMONTHS"] = rnd.choice([n for n in (120, 72, 48, 24) if n != settings["NMONTHS"]])
        cfg = {"settings": settings, "simulations": sims}
        loaded = copy.deepcopy(cfg)
    want = []
    st = cfg["settings"]
    wc = st.get("countries", [])
    wc = [wc] if isinstance(wc, str) else list(wc)
    for name, sim in cfg["simulations"].items():
        want.append((sim["title"], dict(sim, NMONTHS=st["NMONTHS"]), wc, "_" + name, sim.get("NMONTHS")))
    calls = []
    orig = ScenarioRunnerNoTrade.run_model_no_trade

    def rec(self, *a, **k):
        calls.append({"title": k.get("title"), "opts": copy.deepcopy(k.get("scenario_option")), "countries": list(k.get("countries_list", [])), "postfix": k.get("figure_save_postfix"),
                      "return_results": k.get("return_results"), "save_all_results": k.get("save_all_results"), "positional": len(a)})
        if case["real"]:
            return orig(self, *a, **k)
        return None

    ScenarioRunnerNoTrade.run_model_no_trade = rec
    err = None
    try:
        with contextlib.redirect_stdout(io.StringIO()):
            ry.run_scenarios_from_yaml(loaded, False, False, case["web"])
    except BaseException as e:  # noqa: BLE001
        if isinstance(e, KeyboardInterrupt):
            raise
        err = repr(e)[:200]
    finally:
        ScenarioRunnerNoTrade.run_model_no_trade = orig
    if err is not None:
        bad("run_failed", "the entry point raised %s after %d of %d simulations" % (err, len(calls), len(want)), failure_class="entry_point_raised")
    if len(calls) != len(want):
        bad("yaml_simulations_not_all_run", "%d simulations in the configuration, %d model calls" % (len(want), len(calls)))
    for k, (c, w) in enumerate(zip(calls, want)):
        if c["title"] != w[0] or c["postfix"] != w[3]:
            bad("yaml_simulation_mislabelled", "call %d: title %r postfix %r, configuration says %r / %r" % (k, c["title"], c["postfix"], w[0], w[3]))
        if w[4] is not None and (c["opts"] or {}).get("NMONTHS") == w[4]:
            w[1]["NMONTHS"] = w[4]  # a horizon written into the simulation entry itself: either reading of it is accepted for that entry
        if c["opts"] != w[1]:
            diff = sorted(kk for kk in set(c["opts"] or {}) | set(w[1]) if (c["opts"] or {}).get(kk) != w[1].get(kk))
            bad("yaml_options_changed_on_the_way", "call %d (%s): options reaching the model differ from the file in %s" % (k, w[0], diff[:6]), keys=diff[:10])
        if c["countries"] != w[2]:
            bad("yaml_countries_changed_on_the_way", "call %d (%s): countries %s, configuration says %s" % (k, w[0], c["countries"][:6], w[2][:6]))
        if bool(c["return_results"]) != bool(case["web"]) or bool(c["save_all_results"]) != bool(case["web"]):
            bad("yaml_web_mode_flags_wrong", "call %d: return_results=%r save_all_results=%r in %s mode" % (k, c["return_results"], c["save_all_results"], "web-interface" if case["web"] else "plain"))
    return {"viol": viol, "obs": {"iso": "YAML", "preset": case["tag"], "rounds": 1 if case["real"] else 0, "wall": 0, "percent_fed": 0.0 if err is None else None,
                                   "yaml_simulations": len(want), "yaml_calls": len(calls), "yaml_real": bool(case["real"])}}


def run_case(case, tier):
    if case.get("kind") == "yaml_entry":
        r = yaml_entry(case)
        if r["obs"]["percent_fed"] is None:
            del r["obs"]["percent_fed"]
            r["obs"]["failure"] = "entry_point_raised"
        return r
    tr = capture.run_pipeline(case)
    viol = []
    obs = {"iso": case["iso"], "preset": case["tag"], "rounds": len(tr.lps), "wall": round(tr.wall, 2)}
    if tr.error is not None:
        fc = capture.failure_class(tr)
        obs["failure"] = fc
        mech = "run_failed"
        if "You must specify" in tr.error:
            mech = "preset_rejected_by_option_dispatcher"
        viol.append({"mech": mech, "msg": "%s under %s: %s" % (case["iso"], case["tag"], tr.error[:160]),
                     "data": {"iso": case["iso"], "preset": case["tag"], "cell": "%s|%s" % (case["iso"], case["tag"].replace("+report", "")), "report_mode": bool(case.get("plots")), "failure_class": fc,
                              "where": getattr(tr, "error_where", None)}})
    else:
        pf = tr.result.percent_people_fed
        obs["percent_fed"] = pf
        if not (isinstance(pf, (int, float)) and math.isfinite(pf) and pf >= 0):
            viol.append({"mech": "headline_not_finite_nonnegative", "msg": "%s %s -> %r" % (case["iso"], case["tag"], pf),
                         "data": {"iso": case["iso"], "preset": case["tag"], "value": repr(pf)}})
    return {"viol": viol, "obs": obs}


def summarize(cases, records, tier):
    ok = [r for r in records if r.get("status") == "ok"]
    done = [r for r in ok if "percent_fed" in r["obs"]]
    cells = {(r["obs"]["iso"], r["obs"]["preset"]) for r in ok}
    by_rounds = collections.Counter(r["obs"].get("rounds") for r in done)
    fails = [(r["obs"]["iso"], r["obs"]["preset"], r["obs"].get("failure")) for r in ok if "failure" in r["obs"]]
    samples = [{"iso": r["obs"]["iso"], "preset": r["obs"]["preset"], "percent_fed": r["obs"].get("percent_fed"),
                "optimisation_rounds": r["obs"].get("rounds")} for r in done[:: max(1, len(done) // 12)]][:14]
    cov = {
        "evaluations": len(ok),
        "distinct_nontrivial": len({(r["obs"]["iso"], r["obs"]["preset"]) for r in done if r["obs"].get("rounds", 0) >= 1}),
        "rule": "one case per (country, preset) grid cell; non-trivial = the run executed at least one optimisation round and returned a headline; distinct by (iso, preset)",
        "samples": samples or [{"note": "no completed run"}],
        "grid_cells": len(cells),
        "presets": len({c["tag"] for c in cases}),
        "countries": len({c["iso"] for c in cases}),
        "exhaustive": tier == "thorough",
        "runs_by_number_of_optimisation_rounds": {str(k): v for k, v in by_rounds.items()},
        "failed_cells": fails[:60],
        "yaml_entry_point": {"configurations_driven": sum(1 for r in ok if "yaml_calls" in r["obs"]), "run_for_real": sum(1 for r in ok if r["obs"].get("yaml_real")),
                             "simulations": int(sum(r["obs"].get("yaml_simulations", 0) for r in ok)), "model_calls_recorded": int(sum(r["obs"].get("yaml_calls", 0) for r in ok))},
        "wrapper_evaluations_note": "rounds per run counted by the Optimizer.optimize_* wrappers",
    }
    if len(done) < 0.5 * len(cases):
        cov["inconclusive_reason"] = "fewer than half of the grid cells completed (%d of %d)" % (len(done), len(cases))
    return cov
