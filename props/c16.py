"""C16 — every country completes under every documented preset.

Driver = the preset grid itself.  Monitor = outcome of the real run with the
repository's validation left on: no exception / sys.exit, finite headline >= 0."""
import collections
import copy
import math
import random

from vlib import capture, workload

ASSUMPTIONS = [
    "manuscript presets are extracted from plot_manuscript_figures.py itself by executing its recalculate_plot_* functions with the runner entry points replaced by recorders, and are run exactly as the script submits them (incl. its country lists)",
    "a run is successful iff run_model_no_trade / run_and_analyze_scenario returns without raising and the headline is finite and >= 0",
]


def presets(tier, seed=0):
    """-> list of (name, options, countries or None).  Manuscript presets are taken from the shipped script itself."""
    pres = [(n, o, None) for n, o in workload.yaml_presets()]
    pres += [(n, o, cl) for n, o, cl in workload.script_presets()]
    named = {n: o for n, o, _ in pres}
    glob = [n for n, o, cl in pres if workload.is_global(o)]
    if tier == "thorough":
        anchors = ["yaml:argentina:argentina_net_nuclear_resilient"] + [n for n in named if n.startswith("script:fig1:0:")]
        for anchor in anchors:
            pres += [(n, o, None) for n, o in workload.single_option_variations(anchor, named[anchor]) if "scale" in named[anchor]]
        ganchors = glob
    else:
        ganchors = workload.rotate(glob, seed)[:2]
        # single-option variations of the shipped anchor for a rotating pair of countries
        a = "yaml:argentina:argentina_net_nuclear_resilient"
        isos = workload.all_isos()
        pair = [workload.rotate([i for i in workload.HOSTILE if i in isos], seed * 7)[0], workload.rotate(isos, seed * 11 + 3)[0]]
        pres += [(n, o, pair) for n, o in workload.single_option_variations(a, named[a])]
    # single-option variations of EVERY country-scale preset, each for a seeded sample of countries (the full grid of
    # 164 countries x 36 presets x ~40 variations is beyond a run; thorough: 12 countries per variation, quick: 160 cells in all)
    # (the sample does not depend on the seed: the cells explored are a fixed set, so that the ones that fail on the unchanged
    # tree can be listed one by one in known_findings.json; the quick tier draws its 160 cells from that set with the seed)
    rs = random.Random(97)
    isos_all = workload.all_isos()
    cvar = []
    for n, o, cl in list(pres):
        if workload.is_global(o) or "~" in n or "scale" not in o:
            continue
        for vn, vo in workload.single_option_variations(n, o):
            cvar.append((vn, vo))
    fixed = [(vn, vo, rs.sample(isos_all, 12)) for vn, vo in cvar]
    if tier == "thorough":
        pres += fixed
    else:
        rq = random.Random(seed * 97 + 5)
        pres += [(vn, vo, [rq.choice(cl)]) for vn, vo, cl in rq.sample(fixed, min(160, len(fixed)))]
    # single-option variations of the world-scale presets (every documented global value of every family)
    for anchor in ganchors:
        pres += [(n, o, ["WOR"]) for n, o in workload.single_option_variations(anchor, named[anchor])]
    return pres


def gen_cases(tier, seed):
    isos = workload.all_isos()
    pres = presets(tier, seed)
    cases = []
    hostile = [i for i in workload.HOSTILE if i in isos]
    for pi, (name, o, cl) in enumerate(pres):
        if workload.is_global(o) or cl == ["WOR"]:
            c = {"kind": "pipeline", "iso": "WOR", "opts": copy.deepcopy(o), "tag": name}
            cases.append(c)
            continue
        if cl:
            sel = cl  # the script runs this preset for a fixed list of countries
        elif tier == "thorough":
            sel = isos
        else:
            # all countries for two presets (rotating with the seed), hostile subset for the rest
            full = {(seed * 2) % len(pres), (seed * 2 + 5) % len(pres)}
            if pi in full:
                sel = isos
            else:  # hostile subset + a seeded sample of the other countries, different for every preset
                rnd = random.Random(seed * 1000 + pi)
                sel = hostile + [i for i in workload.zero_rows(seed + pi, 4) if i not in hostile]
                sel = sel + rnd.sample([i for i in isos if i not in sel], 10)
        for iso in sel:
            cases.append({"kind": "pipeline", "iso": iso, "opts": copy.deepcopy(o), "tag": name})
    for n, c in enumerate(cases):
        c["id"] = "%s|%s" % (c["iso"], c["tag"])
    return cases


def run_case(case, tier):
    tr = capture.run_pipeline(case)
    viol = []
    obs = {"iso": case["iso"], "preset": case["tag"], "rounds": len(tr.lps), "wall": round(tr.wall, 2)}
    if tr.error is not None:
        fc = capture.failure_class(tr)
        obs["failure"] = fc
        mech = "run_failed"
        if "You must specify" in tr.error:
            mech = "preset_rejected_by_option_dispatcher"
        viol.append({"mech": mech, "msg": "%s under %s: %s" % (case["iso"], case["tag"], tr.error[:160]),
                     "data": {"iso": case["iso"], "preset": case["tag"], "cell": "%s|%s" % (case["iso"], case["tag"]), "failure_class": fc,
                              "where": getattr(tr, "error_where", None)}})
    else:
        pf = tr.result.percent_people_fed
        obs["percent_fed"] = pf
        if not (isinstance(pf, (int, float)) and math.isfinite(pf) and pf >= 0):
            viol.append({"mech": "headline_not_finite_nonnegative", "msg": "%s %s -> %r" % (case["iso"], case["tag"], pf),
                         "data": {"iso": case["iso"], "preset": case["tag"], "value": repr(pf)}})
    return {"viol": viol, "obs": obs}


def summarize(cases, records, tier):
    ok = [r for r in records if r.get("status") == "ok"]
    done = [r for r in ok if "percent_fed" in r["obs"]]
    cells = {(r["obs"]["iso"], r["obs"]["preset"]) for r in ok}
    by_rounds = collections.Counter(r["obs"].get("rounds") for r in done)
    fails = [(r["obs"]["iso"], r["obs"]["preset"], r["obs"].get("failure")) for r in ok if "failure" in r["obs"]]
    samples = [{"iso": r["obs"]["iso"], "preset": r["obs"]["preset"], "percent_fed": r["obs"].get("percent_fed"),
                "optimisation_rounds": r["obs"].get("rounds")} for r in done[:: max(1, len(done) // 12)]][:14]
    cov = {
        "evaluations": len(ok),
        "distinct_nontrivial": len({(r["obs"]["iso"], r["obs"]["preset"]) for r in done if r["obs"].get("rounds", 0) >= 1}),
        "rule": "one case per (country, preset) grid cell; non-trivial = the run executed at least one optimisation round and returned a headline; distinct by (iso, preset)",
        "samples": samples or [{"note": "no completed run"}],
        "grid_cells": len(cells),
        "presets": len({c["tag"] for c in cases}),
        "countries": len({c["iso"] for c in cases}),
        "exhaustive": tier == "thorough",
        "runs_by_number_of_optimisation_rounds": {str(k): v for k, v in by_rounds.items()},
        "failed_cells": fails[:60],
        "wrapper_evaluations_note": "rounds per run counted by the Optimizer.optimize_* wrappers",
    }
    if len(done) < 0.5 * len(cases):
        cov["inconclusive_reason"] = "fewer than half of the grid cells completed (%d of %d)" % (len(done), len(cases))
    return cov
