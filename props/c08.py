"""C08 — supply series follow the calendar, disruption schedule and configured delays.

(a) real first-round parameter computation for countries x supply-affecting options x horizons,
(b) the food_system classes called directly with generated constants,
both compared with closed-form reference formulas written from the docstrings/README
(index arithmetic, not list concatenation)."""
import collections
import random

import numpy as np

from vlib import capture, env, workload

ASSUMPTIONS = [
    "reference = documented function of the inputs handed to Parameters (constants_for_params): calendar starts in May (month m is calendar month (4+m) mod 12), year 1 = months 0-7, year y = months 8+12(y-2) .. 19+12(y-2), last block extended",
    "year-1 crop ratio uses the documented harvest-before-May adjustment (docstring of get_year_1_ratio_using_fraction_harvest_before_may) incl. its four hard-coded countries",
    "crop series is compared for scenarios without relocation (relocation / greenhouse interaction is C09)",
    "methane SCP: reference applies the industrial delay once, as documented (scenarios: 'delay before industrial foods ramp')",
    "tolerance 1e-9 relative to the largest value of the series",
]
REL = 1e-9
SCP_RAMP = [0] * 12 + [2] * 5 + [4] + [7] * 5 + [9] + [11] * 6 + [13]
CS_RAMP = [0.0] * 5 + [4.7] * 3


def year_of_month(m, nyears=10):
    m = np.asarray(m)
    return np.where(m < 8, 1, np.minimum(nyears, 2 + (m - 8) // 12))


def year1_ratio(R1, seas, iso):
    hb = {"ZAF": 1, "JPN": 0, "PRK": 0, "KOR": 0}.get(iso, sum(seas[:4]))
    after_nw = R1 - hb
    if after_nw <= 0:
        return 0.0
    after = 1 - hb
    return 1.0 if after < 0.25 else after_nw / after


def ref_crops(inp, N, iso):
    seas = [float(x) for x in inp["SEASONALITY"]]
    m = np.arange(N)
    R = [None] + [float(inp["RATIO_CROPS_YEAR%d" % y]) for y in range(1, 11)]
    yr = year_of_month(m)
    ratio = np.array([year1_ratio(R[1], seas, iso) if y == 1 else R[y] for y in yr], float)
    ratio = np.where(ratio <= 0, np.round(ratio, 8), ratio)  # documented: ratios are rounded to 8 decimals at or below zero
    annual = inp["BASELINE_CROP_KCALS"] * (1 - 92.0 / 3898.0) * 4e6 / 1e9
    return annual * np.array(seas)[(4 + m) % 12] * ratio * (1 - inp["WASTE_DISTRIBUTION"]["CROPS"] / 100.0)


def ref_grass(inp, N):
    ny = N // 12
    m = np.arange(N)
    yr = np.where(m < 8, 1, np.minimum(ny, 2 + (m - 8) // 12))
    G = [None] + [float(inp["RATIO_GRASSES_YEAR%d" % y]) for y in range(1, 11)]
    # the monthly baseline is in million dry caloric tons: 1e6 t * 1000 kg * 4000 kcal / 1e9 = 4000 billion kcal
    return np.array([G[y] for y in yr]) * inp["HUMAN_INEDIBLE_FEED_BASELINE_MONTHLY"] * 4000.0


def ref_fish(inp, tin, N):
    k = (1 - inp["WASTE_DISTRIBUTION"]["SEAFOOD"] / 100.0) * (1 - inp["WASTE_RETAIL"] / 100.0)
    pct = np.asarray(tin["FISH_PERCENT_MONTHLY"], float)[:N]
    if not inp["ADD_FISH"]:
        return np.zeros(len(pct))
    return pct / 100.0 * inp["FISH_DRY_CALORIC_ANNUAL"] * k * 4e6 / 1e9 / 12.0


def ref_demand(annual, duration, N):
    m = np.arange(N)
    return np.where(m < duration, annual / 12.0 * 4e6 / 1e9, 0.0)


def ref_ramp(ramp, cap, delay, N, times_delay=1):
    m = np.arange(N) - times_delay * delay
    out = np.zeros(N)
    for i, k in enumerate(m):
        if k < 0:
            out[i] = 0
        elif k < len(ramp):
            out[i] = ramp[k]
        else:
            out[i] = cap
    return out


def ref_scp(inp, N, kcals_monthly, times_delay=1):
    if not inp["ADD_METHANE_SCP"]:
        return np.zeros(N)
    pct = ref_ramp(SCP_RAMP, 15, inp["DELAY"]["INDUSTRIAL_FOODS_MONTHS"], N, times_delay)
    return (pct / (1 - 0.12) * inp["INDUSTRIAL_FOODS_SLOPE_MULTIPLIER"] / 100.0 * inp["GLOBAL_POP"] * kcals_monthly / 1e9
            * inp["SCP_GLOBAL_PRODUCTION_FRACTION"] * (1 - inp["WASTE_DISTRIBUTION"]["SUGAR"] / 100.0))


def ref_cs(inp, N, kcals_monthly):
    if not inp["ADD_CELLULOSIC_SUGAR"]:
        return np.zeros(N)
    pct = ref_ramp(CS_RAMP, 9.5, inp["DELAY"]["INDUSTRIAL_FOODS_MONTHS"], N)
    return (pct / (1 - 0.12) * inp["INDUSTRIAL_FOODS_SLOPE_MULTIPLIER"] / 100.0 * inp["GLOBAL_POP"] * kcals_monthly / 1e9
            * inp["CS_GLOBAL_PRODUCTION_FRACTION"] * (1 - inp["WASTE_DISTRIBUTION"]["SUGAR"] / 100.0))


def ref_seaweed_area(inp, N):
    A0 = 0.1 * inp["SEAWEED_NEW_AREA_FRACTION"]
    new = 2.0765 * 30 * inp["SEAWEED_NEW_AREA_FRACTION"]
    cap = 1853 * inp["SEAWEED_MAX_AREA_FRACTION"]
    m = np.arange(N)
    if not inp["ADD_SEAWEED"]:
        a = np.full(N, A0)
    else:
        d = inp["DELAY"]["SEAWEED_MONTHS"]
        a = np.where(m < d, A0, A0 + (m - d) * new)
    return np.minimum(a, cap)


def ref_seaweed_growth(inp):
    keys = sorted(int(k) for k in inp["SEAWEED_GROWTH_PER_DAY"])
    d = np.array([inp["SEAWEED_GROWTH_PER_DAY"][str(k)] for k in keys], float)
    return 100.0 * (1 + d / 100.0) ** 30


def ref_greenhouse(inp, N, iso):
    """greenhouse output = greenhouse area x (mean monthly crop energy per hectare) x disruption ratio of the year
    (raised to the relocation exponent when <= 1) x (1 + greenhouse gain) x (1 - distribution waste)(1 - retail waste)"""
    if not inp["ADD_GREENHOUSES"]:
        return np.zeros(N)
    area_total = inp["INITIAL_GLOBAL_CROP_AREA"] * inp["INITIAL_CROP_AREA_FRACTION"]
    if area_total == 0:
        return np.zeros(N)
    m = np.arange(N)
    seas = [float(x) for x in inp["SEASONALITY"]]
    R = [None] + [float(inp["RATIO_CROPS_YEAR%d" % y]) for y in range(1, 11)]
    yr = year_of_month(m)
    ratio = np.array([year1_ratio(R[1], seas, iso) if y == 1 else R[y] for y in yr], float)
    ratio = np.where(ratio <= 0, np.round(ratio, 8), ratio)
    ex = inp["ROTATION_IMPROVEMENTS"]["POWER_LAW_IMPROVEMENT"] if inp["OG_USE_BETTER_ROTATION"] else 1
    eff = np.where(ratio > 1, ratio, np.power(np.maximum(ratio, 0), ex))
    annual = inp["BASELINE_CROP_KCALS"] * (1 - 92.0 / 3898.0) * 4e6 / 1e9
    per_ha = annual * np.mean(seas) / area_total
    lim = inp["GREENHOUSE_AREA_MULTIPLIER"] * area_total
    area = np.clip((m - (inp["DELAY"]["GREENHOUSE_MONTHS"] + 5)) / 36.0, 0, 1) * lim
    waste = (1 - inp["WASTE_DISTRIBUTION"]["CROPS"] / 100.0) * (1 - inp["WASTE_RETAIL"] / 100.0)
    return area * per_ha * eff * (1 + inp["GREENHOUSE_GAIN_PCT"] / 100.0) * waste


def ref_stored_food(inp):
    S = [inp["END_OF_MONTH_STOCKS"][k] for k in ("JAN", "FEB", "MAR", "APR", "MAY", "JUN", "JUL", "AUG", "SEP", "OCT", "NOV", "DEC")]
    start_index = 5 - 1  # May
    before = S[start_index - 1]
    tons = before * inp["PERCENT_STORED_FOOD_TO_USE"] / 100.0 - min(S) * inp["RATIO_STOCKS_UNTOUCHED"]
    return tons * 4e6 / 1e9 * (1 - inp["WASTE_DISTRIBUTION"]["CROPS"] / 100.0)


# ------------------------------------------------------------------ cases
SUPPLY_FAMS = ["seasonality", "grasses", "crop_disruption", "fish", "waste", "stored_food", "ratio_stocks_untouched", "shutoff", "scenario", "nutrition"]


def gen_cases(tier, seed):
    rnd = random.Random(800 + seed)
    isos = workload.all_isos()
    cases = []
    fam = workload.families("country")
    if tier == "quick":
        sel = workload.zero_rows(seed, 4) + workload.rotate([i for i in workload.HOSTILE if i in isos], seed)[:16] + rnd.sample(isos, 24)
        sel = list(dict.fromkeys(sel))
    else:
        sel = isos
    for k, iso in enumerate(sel):
        nvar = 3 if tier == "quick" else 30
        for j in range(nvar):
            o = workload.base_country(NMONTHS=workload.FAMILIES_COMMON["NMONTHS"][(k + j) % 7])
            if j > 0:
                for f in rnd.sample(SUPPLY_FAMS, rnd.randint(1, 5)):
                    o[f] = rnd.choice(fam[f])
                if rnd.random() < 0.3:
                    o["CROP_PRODUCTION_MULTIPLIER"] = rnd.choice([0, 0.5, 2, round(rnd.uniform(0, 3), 3)])
                if rnd.random() < 0.3:
                    o["GRASSES_PRODUCTION_MULTIPLIER"] = rnd.choice([0, 0.5, 2, round(rnd.uniform(0, 3), 3)])
                if rnd.random() < 0.2:
                    o["RATIO_STOCKS_UNTOUCHED"] = round(rnd.random(), 3)
            cases.append({"kind": "first_round", "iso": iso, "opts": o, "id": "%s#%d" % (iso, j)})
    gf = workload.families("global")
    for j in range(6 if tier == "quick" else 60):
        o = {k2: rnd.choice(v) for k2, v in gf.items()}
        o["scale"] = "global"
        o.update(workload.FIXED)
        cases.append({"kind": "first_round", "iso": "WOR", "opts": o, "id": "WOR#%d" % j})
    # multi-country calls: the countries whose options the repository rewrites on purpose come first in table order (ALB is
    # the second row), so every call contains one of them together with countries handled after it
    tabs = isos
    for j in range(6 if tier == "quick" else 200):
        o = workload.base_country(NMONTHS=rnd.choice([120, 72, 48]))
        if j % 2 == 0:
            o.update(scenario=rnd.choice(["all_resilient_foods", "seaweed"]), cull="do_eat_culled", shutoff=rnd.choice(["continued", "long_delayed_shutoff", "short_delayed_shutoff"]))
            if j % 4 == 2:
                o.update(meat_strategy="feed_only_ruminants", shutoff="long_delayed_shutoff", crop_disruption="zero", ratio_stocks_untouched=rnd.choice(["zero", "baseline"]))
        else:
            for f in rnd.sample(SUPPLY_FAMS, 3):
                o[f] = rnd.choice(fam[f])
        sel = rnd.sample(["ALB", "SLV", "ECU"], rnd.choice([1, 2])) + rnd.sample(tabs, 8 if tier == "quick" else 20)
        cases.append({"kind": "batch", "countries": sel, "opts": o, "id": "batch#%d" % j})
    # the demand series as the feed-maximising round receives them (real runs up to that round): the biofuel cap is the documented
    # demand series itself, the feed cap never exceeds the documented feed demand; option corners included (culled meat eaten or
    # not x storage regime x schedule)
    for j in range(8 if tier == "quick" else 96):
        o = workload.base_country(cull=["do_eat_culled", "dont_eat_culled"][j % 2], ratio_stocks_untouched=workload.FAMILIES_COMMON["ratio_stocks_untouched"][(j // 2) % len(workload.FAMILIES_COMMON["ratio_stocks_untouched"])],
                                  shutoff=["long_delayed_shutoff", "continued", "short_delayed_shutoff", "continued_after_10_percent_fed"][(j // 4 + j) % 4], NMONTHS=[120, 72, 48][j % 3],
                                  scenario=["no_resilient_foods", "all_resilient_foods"][(j // 3) % 2])
        iso = (["USA", "BRA", "DEU", "ARG", "IND", "FRA", "CHN", "IDN"][j % 8] if j < 16 else rnd.choice(isos))
        cases.append({"kind": "second_round", "iso": iso, "opts": o, "id": "second_round/%s#%d" % (iso, j)})
    n = 40 if tier == "quick" else 1600
    for cls in ("outdoor_crops", "seafood", "stored_food", "methane_scp", "cellulosic_sugar", "seaweed", "feed_and_biofuels", "grass"):
        for k in range(n // 4 if tier == "quick" else n // 4):
            cases.append({"kind": "direct", "cls": cls, "gen_seed": seed * 1009 + k, "examples": 20, "id": "%s#%d" % (cls, k)})
    return cases


class Checker:
    def __init__(self, where):
        self.viol = []
        self.where = where
        self.maxres = {}
        self.seen = collections.Counter()

    def bad(self, mech, msg, **d):
        self.seen[mech] += 1
        if self.seen[mech] <= 2:
            self.viol.append({"mech": mech, "msg": "%s %s" % (self.where, msg), "data": d})

    def series(self, name, got, ref, N, data=None, floor=0.0):
        got = np.asarray(got, float)
        data = dict(data or {})
        data["series"] = name
        if got.ndim != 1 or len(got) != N:
            self.bad("series_wrong_length", "%s has %s values for %d months" % (name, got.shape, N), **data)
            return False
        if not np.isfinite(got).all():
            self.bad("series_not_finite", "%s contains non-finite values" % name, **data)
            return False
        if got.min() < 0:
            self.bad("series_negative", "%s month %d = %.6g" % (name, int(got.argmin()), got.min()), **data)
        if ref is None:
            return True
        ref = np.asarray(ref, float)
        sc = max(1e-300, float(np.abs(ref).max()), float(np.abs(got).max()), floor)
        d = np.abs(got - ref) / sc
        self.maxres[name] = max(self.maxres.get(name, 0.0), float(d.max()))
        if d.max() > REL:
            m = int(d.argmax())
            self.bad(name + "_differs_from_documented_formula", "%s month %d: model %.10g, documented formula %.10g" % (name, m, got[m], ref[m]), month=m, **data)
            return False
        return True


def first_round(case):
    import pandas as pd
    from src.food_system.food import Food
    from src.optimizer.parameters import Parameters
    from src.scenarios.run_scenario import ScenarioRunner

    capture.install()
    iso, opts = case["iso"], case["opts"]
    N = opts["NMONTHS"]
    ck = Checker("%s %s" % (iso, case["id"]))
    tr = capture.Trace(case)
    capture.CUR = tr
    try:
        row = None
        if iso == "WOR":
            c, t, l = ScenarioRunner().set_depending_on_option(dict(opts))
        else:
            tab = pd.read_csv(env.REPO + "/data/no_food_trade/computer_readable_combined.csv")
            row = tab[tab.iso3 == iso].iloc[0]
            c, t, l = ScenarioRunner().set_depending_on_option(dict(opts), country_data=row)
        tin = dict(t)
        out = Parameters().compute_parameters_first_round(c, t, l)
    except BaseException as e:  # noqa: BLE001
        if isinstance(e, KeyboardInterrupt):
            raise
        return {"viol": [], "obs": {"first_round": True, "iso": iso, "failed": repr(e)[:120], "audited": 0}}
    finally:
        capture.CUR = None
    r = audit_outputs(case["id"], iso, opts, tin, out, tr)
    # CROP_ / GRASSES_PRODUCTION_MULTIPLIER scale a baseline: the series must be exactly that multiple of the series of the same
    # options without the multiplier, in every month of the horizon (the year ratios the audit reads were already multiplied)
    mult = {k: opts[k] for k in ("CROP_PRODUCTION_MULTIPLIER", "GRASSES_PRODUCTION_MULTIPLIER") if k in opts}
    if mult and "failed" not in r["obs"]:
        try:
            o0 = {k: v for k, v in opts.items() if k not in mult}
            tr0 = capture.Trace(case)
            capture.CUR = tr0
            try:
                if iso == "WOR":
                    c0, t0, l0 = ScenarioRunner().set_depending_on_option(dict(o0))
                else:
                    c0, t0, l0 = ScenarioRunner().set_depending_on_option(dict(o0), country_data=row)
                out0 = Parameters().compute_parameters_first_round(c0, t0, l0)
            finally:
                capture.CUR = None
            inp = out[0]["inputs"]
            plain = not (inp["OG_USE_BETTER_ROTATION"] or inp["ADD_GREENHOUSES"])
            pairs = []
            if "CROP_PRODUCTION_MULTIPLIER" in mult and plain:
                pairs.append(("outdoor_crops", np.asarray(out[1]["outdoor_crops"].production.kcals, float), np.asarray(out0[1]["outdoor_crops"].production.kcals, float), mult["CROP_PRODUCTION_MULTIPLIER"]))
            if "GRASSES_PRODUCTION_MULTIPLIER" in mult and tr.herds and tr0.herds and tr.herds[0][0]["grass"] is not None and tr0.herds[0][0]["grass"] is not None:
                pairs.append(("grass", np.asarray(tr.herds[0][0]["grass"], float), np.asarray(tr0.herds[0][0]["grass"], float), mult["GRASSES_PRODUCTION_MULTIPLIER"]))
            for name, got, base, m in pairs:
                if name == "outdoor_crops":
                    # model year 1 (May-December) goes through the harvest-before-May correction, which is not linear in the year's
                    # ratio; from month 8 on the series is the calendar month's share times the year's ratio
                    got, base = got[8:], base[8:]
                    if not got.size:
                        continue
                want = base * m
                sc = max(1e-300, float(np.abs(want).max()), float(np.abs(got).max()))
                d = np.abs(got - want) / sc
                r["obs"]["audited"] += 1
                r["obs"]["multiplier_pairs"] = r["obs"].get("multiplier_pairs", 0) + 1
                if got.shape != want.shape or d.max() > REL:
                    k = int(d.argmax()) if got.shape == want.shape else 0
                    r["viol"].append({"mech": "series_does_not_scale_with_production_multiplier", "msg": "%s %s: %s month %d of %d is %.10g, %.6g x the series without the multiplier is %.10g" % (
                        iso, case["id"], name, k + (8 if name == "outdoor_crops" else 0), N, got[k], m, want[k]), "data": {"iso": iso, "series": name, "month": k + (8 if name == "outdoor_crops" else 0), "N": N, "multiplier": m}})
        except BaseException as e:  # noqa: BLE001
            if isinstance(e, KeyboardInterrupt):
                raise
            r["obs"]["multiplier_rerun_failed"] = repr(e)[:100]
    return r


def documented_delays(opts, iso, N):
    """feed / biofuel shut-off delays (months) documented for the *submitted* option; None for an undocumented value.
    For the three (country, option) combinations the repository rewrites on purpose, 'immediate' is accepted too."""
    from props.c13 import SHUTOFF

    v = opts.get("shutoff")
    if v not in SHUTOFF:
        return None
    f, b, _ = SHUTOFF[v]
    return [(N if f == "N" else f, N if b == "N" else b)] + ([(0, 0)] if iso in ("SLV", "ALB", "ECU") else [])


def audit_outputs(case_id, iso, opts, tin, out, tr, after=None):
    from src.food_system.food import Food

    N = opts["NMONTHS"]
    ck = Checker("%s %s%s" % (iso, case_id, " (after %s in one call)" % ",".join(after) if after else ""))
    co, tc = out[0], out[1]
    inp = co["inputs"]
    dd = documented_delays(opts, iso, N)
    got_d = (inp["DELAY"]["FEED_SHUTOFF_MONTHS"], inp["DELAY"]["BIOFUEL_SHUTOFF_MONTHS"])
    if dd is not None and got_d not in dd:
        ck.bad("demand_delay_differs_from_submitted_option", "shutoff=%s submitted: documented feed/biofuel delays %s months, the run uses %s" % (opts.get("shutoff"), dd[0], got_d),
               iso=iso, shutoff=opts.get("shutoff"), after=after)
    kcm = Food.conversions.kcals_monthly
    data = {"iso": iso, "opts_scenario": opts.get("scenario"), "N": N}
    reloc = bool(inp["OG_USE_BETTER_ROTATION"])
    gh = bool(inp["ADD_GREENHOUSES"])
    more_area = inp.get("RATIO_INCREASED_CROP_AREA", 1) > 1
    n = 0
    prod = tc["outdoor_crops"].production.kcals
    if not (reloc or gh or more_area) and inp["ADD_OUTDOOR_GROWING"]:
        ck.series("outdoor_crops", prod, ref_crops(inp, N, iso), N, data, floor=1e-6 * inp["BASELINE_CROP_KCALS"] * 4e6 / 1e9 / 12)
    else:
        ck.series("outdoor_crops", prod, None, N, data)
    n += 1
    ck.series("greenhouse_crops", tc["greenhouse_crops"].kcals, ref_greenhouse(inp, N, iso), N, data)
    ck.series("fish", tc["fish"].to_humans.kcals, ref_fish(inp, tin, N), N, data)
    ck.series("feed_demand", out[4].kcals, ref_demand(inp["FEED_KCALS"], inp["DELAY"]["FEED_SHUTOFF_MONTHS"], N), N, data)
    ck.series("biofuel_demand", out[5].kcals, ref_demand(inp["BIOFUEL_KCALS"], inp["DELAY"]["BIOFUEL_SHUTOFF_MONTHS"], N), N, data)
    ok_scp = True
    got_scp = np.asarray(tc["methane_scp"].kcals, float)
    r1 = ref_scp(inp, N, kcm, 1)
    if inp["ADD_METHANE_SCP"] and len(got_scp) == N and np.abs(got_scp - r1).max() > REL * max(1e-300, r1.max(), got_scp.max()):
        r2 = ref_scp(inp, N, kcm, 2)
        if np.abs(got_scp - r2).max() <= REL * max(1e-300, r2.max()):
            m = int(np.abs(got_scp - r1).argmax())
            ck.bad("methane_scp_delay_applied_twice", "methane SCP month %d: model %.8g, documented ramp (delay %d once) %.8g; the series equals the ramp shifted by twice the delay" % (
                m, got_scp[m], inp["DELAY"]["INDUSTRIAL_FOODS_MONTHS"], r1[m]), delay=inp["DELAY"]["INDUSTRIAL_FOODS_MONTHS"], **data)
            ok_scp = False
    if ok_scp:
        ck.series("methane_scp", got_scp, r1, N, data)
    ck.series("cellulosic_sugar", tc["cellulosic_sugar"].kcals, ref_cs(inp, N, kcm), N, data)
    ck.series("seaweed_built_area", tc["built_area"], ref_seaweed_area(inp, N), N, data)
    gr = np.asarray(tc["growth_rates_monthly"], float)
    rg = ref_seaweed_growth(inp)
    if len(gr) < N:
        ck.bad("series_wrong_length", "seaweed growth factors: %d values for %d months" % (len(gr), N), series="seaweed_growth", **data)
    else:
        ck.series("seaweed_growth", gr[:N], rg[:N], N, data)
    n += 8
    if co["ADD_STORED_FOOD"]:
        sf = co["stored_food"].initial_available.kcals
        ref = ref_stored_food(inp)
        smax = max(inp["END_OF_MONTH_STOCKS"].values()) * 4e6 / 1e9
        if np.ndim(sf) != 0 or not np.isfinite(sf) or sf < 0 or abs(sf - ref) > REL * max(1e-300, abs(ref), smax):
            ck.bad("stored_food_differs_from_documented_formula", "initial stored food %r, documented formula %.10g" % (sf, ref), **data)
        n += 1
    if tr.herds and tr.herds[0][0]["grass"] is not None:
        ck.series("grass", tr.herds[0][0]["grass"], ref_grass(inp, N), N, data)
        n += 1
    # the fat and protein components of the same series: each is the calorie series times the documented nutrient content
    annual = inp["BASELINE_CROP_KCALS"] * (1 - 92.0 / 3898.0) * 4e6 / 1e9
    crop_fat = (inp["BASELINE_CROP_FAT"] / 1e3) / annual if annual else 0.0
    crop_pro = (inp["BASELINE_CROP_PROTEIN"] / 1e3) / annual if annual else 0.0
    rot = inp["ROTATION_IMPROVEMENTS"] if reloc else {"FAT_RATIO": 1.0, "PROTEIN_RATIO": 1.0}
    fish_k = inp["FISH_DRY_CALORIC_ANNUAL"] * 4e6 / 1e9
    nutr = [("outdoor_crops", tc["outdoor_crops"].production, crop_fat, crop_pro),
            ("greenhouse_crops", tc["greenhouse_crops"], crop_fat * rot["FAT_RATIO"], crop_pro * rot["PROTEIN_RATIO"]),
            ("methane_scp", tc["methane_scp"], 1e9 / 5350.0 * 0.09 / 1e6, 1e9 / 5350.0 * 0.65 / 1e6),
            ("cellulosic_sugar", tc["cellulosic_sugar"], 0.0, 0.0)]
    if fish_k > 0:
        nutr.append(("fish", tc["fish"].to_humans, inp["FISH_FAT_TONS_ANNUAL"] / 1e3 / fish_k, inp["FISH_PROTEIN_TONS_ANNUAL"] / 1e3 / fish_k))
    if co["ADD_STORED_FOOD"]:
        nutr.append(("stored_food", co["stored_food"].initial_available, crop_fat, crop_pro))
    for name, food, ff, fp in nutr:
        k = np.atleast_1d(np.asarray(food.kcals, float))
        for nm, comp, frac in (("fat", food.fat, ff), ("protein", food.protein, fp)):
            got = np.atleast_1d(np.asarray(comp, float))
            want = k * frac
            n += 1
            if got.shape != want.shape or not np.isfinite(got).all():
                ck.bad("nutrient_series_malformed", "%s %s: %d values for %d calorie values, or not finite" % (name, nm, got.size, want.size), series=name, nutrient=nm, **data)
                continue
            sc = max(1e-300, float(np.abs(want).max()), float(np.abs(got).max()))
            d = float(np.abs(got - want).max()) / sc
            ck.maxres[name + "_" + nm] = max(ck.maxres.get(name + "_" + nm, 0.0), d)
            if d > REL and sc > 1e-12:
                m = int(np.abs(got - want).argmax())
                ck.bad("nutrient_content_differs_from_documented_ratio", "%s %s month %d: %.10g, calories %.10g x documented content %.8g = %.10g" % (name, nm, m, got[m], k[m], frac, want[m]),
                       series=name, nutrient=nm, **data)
    if len(tc["milk_kcals"]) != N or len(tc["each_month_meat_slaughtered"].kcals) != N:
        ck.bad("series_wrong_length", "milk/meat series length", series="milk_meat", **data)
    return {"viol": ck.viol, "obs": {"first_round": True, "iso": iso, "N": N, "audited": n, "maxres": ck.maxres,
                                     "scenario": opts.get("scenario"), "crops_compared": not (reloc or gh or more_area), "viol_counts": dict(ck.seen)}}


def _waste(rnd):
    return {k: rnd.choice([0, 5.0, 14.0, 99.0, round(rnd.uniform(0, 99), 2)]) for k in ("CROPS", "SEAFOOD", "SUGAR", "MEAT", "MILK", "SEAWEED")}


def direct(case):
    from src.food_system.food import Food

    rnd = random.Random(case["gen_seed"])
    cls = case["cls"]
    ck = Checker("direct %s seed=%d" % (cls, case["gen_seed"]))
    nt = 0
    ex = []
    for e in range(case["examples"]):
        N = rnd.choice([48, 60, 72, 84, 96, 108, 120])
        kd = rnd.choice([2100.0, 2345.0, 1800.0])
        Food.conversions.set_nutrition_requirements(kd, 47.0, 51.0, False, False, rnd.choice([1e5, 3.3e7, 7.7e9]))
        kcm = Food.conversions.kcals_monthly
        scale = rnd.choice([1e-6, 1e-3, 1.0, 1e3, 1e6])
        k = rnd.choice([1e-6, 0.5, 3.0, 1e3])  # metamorphic scale factor
        base = {"NMONTHS": N, "WASTE_DISTRIBUTION": _waste(rnd), "WASTE_RETAIL": rnd.choice([0, 10.0, 50.0, round(rnd.uniform(0, 99), 2)]),
                "DELAY": {"INDUSTRIAL_FOODS_MONTHS": rnd.choice([0, 1, 3, 6, 12, 24]), "SEAWEED_MONTHS": rnd.choice([0, 1, 6, 24]),
                          "FEED_SHUTOFF_MONTHS": rnd.choice([0, 1, 3, 12, N]), "BIOFUEL_SHUTOFF_MONTHS": rnd.choice([0, 1, 2, 6, N])},
                "GLOBAL_POP": 7.7e9, "POP": 3.3e7, "INDUSTRIAL_FOODS_SLOPE_MULTIPLIER": rnd.choice([1, 0.5, 2.0, rnd.uniform(0, 3)])}
        data = {"cls": cls, "N": N, "gen_seed": case["gen_seed"], "example": e}
        try:
            if cls == "outdoor_crops":
                from src.food_system.outdoor_crops import OutdoorCrops

                seas = np.array([rnd.random() for _ in range(12)])
                seas = list(seas / seas.sum())
                c = dict(base, STARTING_MONTH_NUM=5, BASELINE_CROP_KCALS=scale * rnd.uniform(0.1, 10), BASELINE_CROP_FAT=1.0, BASELINE_CROP_PROTEIN=1.0,
                         ADD_OUTDOOR_GROWING=True, OG_USE_BETTER_ROTATION=False, SEASONALITY=seas, COUNTRY_CODE=rnd.choice(["ARG", "ZAF", "JPN", "XXX"]),
                         RATIO_INCREASED_CROP_AREA=1, INITIAL_HARVEST_DURATION_IN_MONTHS=rnd.choice([8, 8, 9, 10, 12]))
                for y in range(1, 12):
                    c["RATIO_CROPS_YEAR%d" % y] = rnd.choice([0, 1, rnd.uniform(0, 3), rnd.uniform(0, 1)])

                def run(cc):
                    oc = OutdoorCrops(cc)
                    oc.calculate_rotation_ratios(cc)
                    oc.calculate_monthly_production(cc)
                    oc.set_crop_production_minus_greenhouse_area(cc, np.zeros(N))
                    return np.asarray(oc.production.kcals, float)

                got = run(c)
                ck.series("outdoor_crops", got, ref_crops(c, N, c["COUNTRY_CODE"]), N, data, floor=1e-6 * c["BASELINE_CROP_KCALS"] * 4e6 / 1e9 / 12)
                got2 = run(dict(c, BASELINE_CROP_KCALS=c["BASELINE_CROP_KCALS"] * k))
                if np.abs(got2 - got * k).max() > 1e-12 * max(1e-300, np.abs(got * k).max()):
                    ck.bad("series_does_not_scale_with_baseline", "outdoor crops: baseline x %g changes the series by another factor" % k, **data)
                nt += got.max() > 0
            elif cls == "seafood":
                from src.food_system.seafood import Seafood

                c = dict(base, ADD_FISH=rnd.random() < 0.9, FISH_DRY_CALORIC_ANNUAL=scale * rnd.uniform(0.1, 10), FISH_PROTEIN_TONS_ANNUAL=1.0, FISH_FAT_TONS_ANNUAL=1.0)
                pct = [rnd.choice([100, 0, rnd.uniform(0, 120)]) for _ in range(rnd.choice([N, N + 12, 200]))]
                tin = {"FISH_PERCENT_MONTHLY": pct}

                def run(cc):
                    s = Seafood(cc)
                    s.set_seafood_production(tin)
                    return np.asarray(s.to_humans.kcals, float)

                got = run(c)
                ck.series("fish", got, ref_fish(c, tin, N), N, data)
                got2 = run(dict(c, FISH_DRY_CALORIC_ANNUAL=c["FISH_DRY_CALORIC_ANNUAL"] * k))
                if len(got2) == len(got) and np.abs(got2 - got * k).max() > 1e-12 * max(1e-300, np.abs(got * k).max()):
                    ck.bad("series_does_not_scale_with_baseline", "fish: baseline x %g" % k, **data)
                nt += got.max() > 0
            elif cls == "stored_food":
                from src.food_system.stored_food import StoredFood

                S = [scale * rnd.uniform(0.1, 10) for _ in range(12)]
                names = ("JAN", "FEB", "MAR", "APR", "MAY", "JUN", "JUL", "AUG", "SEP", "OCT", "NOV", "DEC")
                unt = rnd.choice([0, 1, rnd.random()])
                pairs = list(zip(names, S))
                if rnd.random() < 0.5:
                    # the stocks are a mapping month name -> value: whichever order the pairs arrive in (a sorted yaml or json dump, say)
                    pairs = sorted(pairs) if rnd.random() < 0.5 else rnd.sample(pairs, 12)
                c = dict(base, END_OF_MONTH_STOCKS=dict(pairs), RATIO_STOCKS_UNTOUCHED=unt, PERCENT_STORED_FOOD_TO_USE=100)

                class OC:
                    OG_FRACTION_FAT = 0.01
                    OG_FRACTION_PROTEIN = 0.02

                sf = StoredFood(c, OC())
                sf.calculate_stored_food_to_use(5)
                got = sf.initial_available.kcals
                ref = ref_stored_food(c)
                if not np.isfinite(got) or got < 0 or abs(got - ref) > REL * max(1e-300, abs(ref), max(S) * 4e6 / 1e9):
                    ck.bad("stored_food_differs_from_documented_formula", "initial stored food %r vs documented %.10g (stocks %s, untouched %.3f)" % (got, ref, [round(x, 4) for x in S], unt), **data)
                c2 = dict(c, END_OF_MONTH_STOCKS={n: v * k for n, v in c["END_OF_MONTH_STOCKS"].items()})
                sf2 = StoredFood(c2, OC())
                sf2.calculate_stored_food_to_use(5)
                if abs(sf2.initial_available.kcals - got * k) > 1e-12 * max(1e-300, abs(got * k)):
                    ck.bad("series_does_not_scale_with_baseline", "stored food: stocks x %g" % k, **data)
                nt += got > 0
            elif cls == "methane_scp":
                from src.food_system.methane_scp import MethaneSCP

                c = dict(base, ADD_METHANE_SCP=rnd.random() < 0.9, SCP_GLOBAL_PRODUCTION_FRACTION=scale * rnd.uniform(0.01, 1))

                def run(cc):
                    s = MethaneSCP(cc)
                    s.calculate_monthly_scp_caloric_production(cc)
                    return np.asarray(s.production_kcals_scp_per_month, float)

                got = run(c)
                r1, r2 = ref_scp(c, N, kcm, 1), ref_scp(c, N, kcm, 2)
                d = c["DELAY"]["INDUSTRIAL_FOODS_MONTHS"]
                if len(got) == N and np.abs(got - r1).max() > REL * max(1e-300, r1.max(), got.max()) and np.abs(got - r2).max() <= REL * max(1e-300, r2.max()):
                    ck.bad("methane_scp_delay_applied_twice", "delay %d: first output in month %d, documented month %d" % (d, int(np.argmax(got > 0)), int(np.argmax(r1 > 0))), delay=d, **data)
                else:
                    ck.series("methane_scp", got, r1, N, data)
                if len(got) == N and (np.diff(got) < -1e-12 * max(1e-300, got.max())).any():
                    ck.bad("ramp_not_monotone", "methane SCP decreases", **data)
                got2 = run(dict(c, SCP_GLOBAL_PRODUCTION_FRACTION=c["SCP_GLOBAL_PRODUCTION_FRACTION"] * k))
                if np.abs(got2 - got * k).max() > 1e-12 * max(1e-300, np.abs(got * k).max()):
                    ck.bad("series_does_not_scale_with_baseline", "SCP: fraction x %g" % k, **data)
                nt += got.max() > 0
            elif cls == "cellulosic_sugar":
                from src.food_system.cellulosic_sugar import CellulosicSugar

                c = dict(base, ADD_CELLULOSIC_SUGAR=rnd.random() < 0.9, CS_GLOBAL_PRODUCTION_FRACTION=scale * rnd.uniform(0.01, 1))

                def run(cc):
                    s = CellulosicSugar(cc)
                    s.calculate_monthly_cs_production(cc)
                    return np.asarray(s.production.kcals, float)

                got = run(c)
                ck.series("cellulosic_sugar", got, ref_cs(c, N, kcm), N, data)
                if len(got) == N and (np.diff(got) < -1e-12 * max(1e-300, got.max())).any():
                    ck.bad("ramp_not_monotone", "cellulosic sugar decreases", **data)
                got2 = run(dict(c, CS_GLOBAL_PRODUCTION_FRACTION=c["CS_GLOBAL_PRODUCTION_FRACTION"] * k))
                if np.abs(got2 - got * k).max() > 1e-12 * max(1e-300, np.abs(got * k).max()):
                    ck.bad("series_does_not_scale_with_baseline", "cellulosic sugar: fraction x %g" % k, **data)
                nt += got.max() > 0
            elif cls == "seaweed":
                from src.food_system.seaweed import Seaweed

                c = dict(base, ADD_SEAWEED=rnd.random() < 0.9, SEAWEED_MAX_AREA_FRACTION=rnd.choice([0, 1, rnd.random(), 1e-4]),
                         SEAWEED_NEW_AREA_FRACTION=rnd.choice([0, 1, rnd.random(), 1e-4]), INITIAL_SEAWEED_FRACTION=rnd.random(),
                         MAX_SEAWEED_AS_PERCENT_KCALS_HUMANS=10, MAX_SEAWEED_AS_PERCENT_KCALS_FEED=10, MAX_SEAWEED_AS_PERCENT_KCALS_BIOFUEL=10,
                         SEAWEED_GROWTH_PER_DAY={str(i - 3): rnd.choice([0, 5, rnd.uniform(0, 12)]) for i in range(N + 3)})
                s = Seaweed(c)
                area = s.get_built_area(c)
                ck.series("seaweed_built_area", area, ref_seaweed_area(c, N), N, data)
                if len(area) == N and (np.diff(area) < -1e-12).any():
                    ck.bad("ramp_not_monotone", "seaweed area decreases", **data)
                g = s.get_growth_rates(c)
                ck.series("seaweed_growth", np.asarray(g, float)[:N], ref_seaweed_growth(c)[:N], N, data)
                nt += np.asarray(area).max() > 0
            elif cls == "feed_and_biofuels":
                from src.food_system.feed_and_biofuels import FeedAndBiofuels

                c = dict(base, BIOFUEL_KCALS=scale * rnd.uniform(0, 10), BIOFUEL_FAT=1.0, BIOFUEL_PROTEIN=1.0, FEED_KCALS=scale * rnd.uniform(0, 10), FEED_FAT=1.0, FEED_PROTEIN=1.0)

                def run(cc):
                    fb = FeedAndBiofuels(cc)
                    b, f = fb.get_biofuels_and_feed_from_delayed_shutoff(cc)
                    return np.asarray(f.kcals, float), np.asarray(b.kcals, float)

                f, b = run(c)
                ck.series("feed_demand", f, ref_demand(c["FEED_KCALS"], c["DELAY"]["FEED_SHUTOFF_MONTHS"], N), N, data)
                ck.series("biofuel_demand", b, ref_demand(c["BIOFUEL_KCALS"], c["DELAY"]["BIOFUEL_SHUTOFF_MONTHS"], N), N, data)
                f2, b2 = run(dict(c, FEED_KCALS=c["FEED_KCALS"] * k, BIOFUEL_KCALS=c["BIOFUEL_KCALS"] * k))
                if np.abs(f2 - f * k).max() > 1e-12 * max(1e-300, np.abs(f * k).max()) or np.abs(b2 - b * k).max() > 1e-12 * max(1e-300, np.abs(b * k).max()):
                    ck.bad("series_does_not_scale_with_baseline", "feed/biofuel demand: baseline x %g" % k, **data)
                nt += f.max() > 0
            elif cls == "grass":
                from src.food_system.meat_and_dairy import MeatAndDairy

                c = dict(base, ADD_MILK=True, ADD_MEAT=True, HUMAN_INEDIBLE_FEED_BASELINE_MONTHLY=scale * rnd.uniform(0.1, 10), TONS_MILK_ANNUAL=1.0,
                         TONS_CHICKEN_AND_PORK_ANNUAL=1.0, TONS_BEEF_ANNUAL=1.0, INITIAL_MILK_CATTLE=1.0, INIT_SMALL_ANIMALS=1.0, INIT_MEDIUM_ANIMALS=1.0,
                         INIT_LARGE_ANIMALS_WITH_MILK_COWS=2.0)
                for y in range(1, 12):
                    c["RATIO_GRASSES_YEAR%d" % y] = rnd.choice([0, 1, rnd.uniform(0, 3)])
                got = np.asarray(MeatAndDairy(c).human_inedible_feed.kcals, float)
                ck.series("grass", got, ref_grass(c, N), N, data)
                got2 = np.asarray(MeatAndDairy(dict(c, HUMAN_INEDIBLE_FEED_BASELINE_MONTHLY=c["HUMAN_INEDIBLE_FEED_BASELINE_MONTHLY"] * k)).human_inedible_feed.kcals, float)
                if len(got2) == len(got) and np.abs(got2 - got * k).max() > 1e-12 * max(1e-300, np.abs(got * k).max()):
                    ck.bad("series_does_not_scale_with_baseline", "grass: baseline x %g" % k, **data)
                nt += got.max() > 0
        except AssertionError as err:
            ck.bad("class_rejects_valid_constants", "%s: AssertionError %s" % (cls, str(err)[:80]), **data)
        if e < 1:
            ex.append({"cls": cls, "N": N, "delays": base["DELAY"], "waste_retail": base["WASTE_RETAIL"]})
    return {"viol": ck.viol, "obs": {"direct": cls, "audited": case["examples"], "nontrivial": int(nt), "maxres": ck.maxres, "examples": ex, "viol_counts": dict(ck.seen)}}


def batch(case):
    """One multi-country call of run_model_no_trade: the real dispatcher and option handling per country, with the three
    optimisation rounds replaced by the first-round parameter computation, whose series are audited for every country."""
    import contextlib
    import io

    from src.optimizer.parameters import Parameters
    from src.scenarios.run_model_no_trade import ScenarioRunnerNoTrade
    from src.scenarios.run_scenario import ScenarioRunner

    capture.install()
    opts = dict(case["opts"])
    submitted = dict(opts)
    viol, obs_n, done, maxres, seen = [], 0, [], {}, collections.Counter()
    orig = ScenarioRunner.run_and_analyze_scenario

    class _Res:
        percent_people_fed = 50.0

    def stub(self, c, t, l, *a, **k):
        iso = c["COUNTRY_CODE"] if "COUNTRY_CODE" in c else a[-1]
        tr = capture.Trace(case)
        capture.CUR = tr
        try:
            tin = dict(t)
            out = Parameters().compute_parameters_first_round(c, t, l)
        finally:
            capture.CUR = None
        r = audit_outputs(case["id"], iso, submitted, tin, out, tr, after=list(done))
        done.append(iso)
        viol.extend(r["viol"])
        for kk, v in r["obs"]["maxres"].items():
            maxres[kk] = max(maxres.get(kk, 0), v)
        seen.update(r["obs"]["viol_counts"])
        nonlocal_n[0] += r["obs"]["audited"]
        return _Res()

    nonlocal_n = [0]
    ScenarioRunner.run_and_analyze_scenario = stub
    failed = None
    try:
        with contextlib.redirect_stdout(io.StringIO()):
            ScenarioRunnerNoTrade().run_model_no_trade(title="b", create_pptx_with_all_countries=False, show_country_figures=False, show_map_figures=False,
                                                      add_map_slide_to_pptx=False, scenario_option=opts, countries_list=list(case["countries"]), return_results=True)
    except BaseException as e:  # noqa: BLE001
        if isinstance(e, KeyboardInterrupt):
            raise
        failed = repr(e)[:150]
    finally:
        ScenarioRunner.run_and_analyze_scenario = orig
    # keep at most two violations per mechanism
    keep, cnt = [], collections.Counter()
    for v in viol:
        cnt[v["mech"]] += 1
        if cnt[v["mech"]] <= 2:
            keep.append(v)
    return {"viol": keep, "obs": {"first_round": True, "batch": True, "iso": "+".join(done[:3]), "N": submitted["NMONTHS"], "audited": nonlocal_n[0], "maxres": maxres, "countries_in_call": len(done),
                                  "scenario": submitted.get("scenario"), "crops_compared": False, "viol_counts": dict(seen), "failed": failed}}


def second_round(case):
    tr = capture.run_pipeline({"kind": "pipeline", "iso": case["iso"], "opts": case["opts"], "tag": case["id"]})
    viol, n = [], 0
    N = case["opts"]["NMONTHS"]
    if tr.second is not None and tr.second[1][0] is not None and tr.first is not None:
        inp = tr.second[0][0]
        t2 = tr.second[1][1]
        for name, key, dur in (("biofuel", "BIOFUEL_KCALS", "BIOFUEL_SHUTOFF_MONTHS"), ("feed", "FEED_KCALS", "FEED_SHUTOFF_MONTHS")):
            want = ref_demand(inp[key], inp["DELAY"][dur], N)
            got = np.asarray(t2["max_%s_that_could_be_used" % name].kcals, float)
            n += 1
            sc = max(1e-300, float(np.abs(want).max()))
            if len(got) != N:
                viol.append({"mech": "series_wrong_length", "msg": "%s second-round %s cap: %d values for %d months" % (case["iso"], name, len(got), N), "data": {"iso": case["iso"], "series": "second_round_" + name}})
            elif name == "biofuel" and np.abs(got - want).max() > REL * sc:
                m = int(np.abs(got - want).argmax())
                viol.append({"mech": "second_round_demand_differs_from_documented_formula", "msg": "%s second-round biofuel cap month %d: %.10g, documented demand %.10g (cull=%s, stocks=%s, shutoff=%s)" % (
                    case["iso"], m, got[m], want[m], case["opts"]["cull"], case["opts"]["ratio_stocks_untouched"], case["opts"]["shutoff"]), "data": {"iso": case["iso"], "series": "second_round_biofuel", "month": m}})
            elif name == "feed" and (got - want).max() > REL * sc:
                m = int((got - want).argmax())
                viol.append({"mech": "second_round_demand_differs_from_documented_formula", "msg": "%s second-round feed cap month %d: %.10g exceeds the documented demand %.10g" % (case["iso"], m, got[m], want[m]),
                             "data": {"iso": case["iso"], "series": "second_round_feed", "month": m}})
    return {"viol": viol, "obs": {"first_round": True, "second_round": True, "iso": case["iso"], "N": N, "audited": n, "maxres": {}, "scenario": case["opts"].get("scenario"), "crops_compared": False,
                                  "viol_counts": {}, "failed": tr.error}}


def run_case(case, tier):
    if case["kind"] == "second_round":
        return second_round(case)
    if case["kind"] == "first_round":
        return first_round(case)
    if case["kind"] == "batch":
        return batch(case)
    return direct(case)


def summarize(cases, records, tier):
    ok = [r for r in records if r.get("status") == "ok"]
    fr = [r for r in ok if r["obs"].get("first_round")]
    dr = [r for r in ok if "direct" in r["obs"]]
    maxres = {}
    for r in ok:
        for k, v in r["obs"].get("maxres", {}).items():
            maxres[k] = max(maxres.get(k, 0), v)
    per = collections.Counter()
    nt = collections.Counter()
    for r in dr:
        per[r["obs"]["direct"]] += r["obs"]["audited"]
        nt[r["obs"]["direct"]] += r["obs"]["nontrivial"]
    fr_ok = [r for r in fr if r["obs"]["audited"] > 0]
    cov = {
        "evaluations": int(sum(r["obs"]["audited"] for r in ok)),
        "distinct_nontrivial": len({(r["obs"]["iso"], r["case_id"]) for r in fr_ok if r["obs"].get("crops_compared")}) + int(sum(nt.values())),
        "rule": "first-round cases: (country, supply-affecting option vector, horizon) with every returned series compared with its documented closed form (non-trivial = crop series compared, i.e. no relocation/greenhouse); "
                "direct cases: generated constants per food_system class incl. a scaling re-run (non-trivial = non-zero series); evaluations = series compared",
        "samples": [{k: r["obs"].get(k) for k in ("iso", "N", "scenario", "audited", "maxres")} for r in fr_ok[:: max(1, len(fr_ok) // 5)]][:6] + [{"direct": r["obs"]["direct"], "examples": r["obs"]["examples"]} for r in dr[:3]],
        "second_round_caps_compared": int(sum(r["obs"]["audited"] for r in fr_ok if r["obs"].get("second_round"))),
        "multi_country_calls": sum(1 for r in fr_ok if r["obs"].get("batch")), "countries_audited_inside_multi_country_calls": int(sum(r["obs"].get("countries_in_call", 0) for r in fr_ok)),
        "series_compared_with_and_without_production_multiplier": int(sum(r["obs"].get("multiplier_pairs", 0) for r in fr_ok)),
        "first_round_runs": len(fr_ok), "first_round_failed": len(fr) - len(fr_ok), "countries": len({r["obs"]["iso"] for r in fr_ok}),
        "horizons": sorted({r["obs"]["N"] for r in fr_ok}),
        "direct_examples_by_class": dict(per), "direct_nontrivial_by_class": dict(nt),
        "max_relative_residual_by_series": maxres,
    }
    if len(fr_ok) < 0.7 * max(1, len(fr)):
        cov["inconclusive_reason"] = "only %d of %d first-round cases completed" % (len(fr_ok), len(fr))
    for cls in ("outdoor_crops", "seafood", "stored_food", "methane_scp", "cellulosic_sugar", "seaweed", "feed_and_biofuels", "grass"):
        if nt.get(cls, 0) == 0:
            cov["inconclusive_reason"] = "no non-trivial direct example for " + cls
    return cov
