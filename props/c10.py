"""C10 — unit conversions are mutually consistent and anchored to the population's needs."""
import collections
import itertools
import random

import numpy as np

NEEDS_MODEL = False
ASSUMPTIONS = [
    "unit names are enumerated from the repository's own multiplier tables (get_kcal/fat/protein_multipliers); an independent table of absolute multipliers (from billion kcal / thousand tons) is used as anchor for every name",
    "tolerance 1e-12 relative",
    "process-wide settings (population, daily requirements, inclusion flags) are drawn per case and restored afterwards",
    "re-setting histories: the requirements are set 8 (quick) / 20 (thorough) times in one process, changing 1-3 components each time, with conversions under every setting; tables, anchors and conversions must follow the current setting",
]
REL = 1e-12
SUFFIXES = ["", " each month", " per month"]


def gen_cases(tier, seed):
    cases = []
    n = 16 if tier == "quick" else 64
    reps = 1 if tier == "quick" else 8  # thorough: the exhaustive product under 8 different draws of the process settings
    for rep in range(reps):
        for k in range(n):
            cases.append({"kind": "units", "gen_seed": seed * 7 + k + 100003 * rep, "shard": k, "nshards": n, "tier": tier, "id": "units#%d.%d" % (rep, k)})
    # histories: the process-wide requirements are re-set several times in one process (as a multi-country batch does),
    # one component at a time, with conversions in between
    nh = 8 if tier == "quick" else 256
    for k in range(nh):
        cases.append({"kind": "resettings", "gen_seed": seed * 11 + 1000 + k, "steps": 8 if tier == "quick" else 20, "tier": tier, "id": "resettings#%d" % k})
    return cases


def ref_mult(kd, fd, pd, pop):
    """Independent absolute multipliers (value in unit = value in base * m), base = billion kcal / thousand tons."""
    k = {"billion kcals": 1.0, "billion people fed": 1.0 / (kd * 30), "percent people fed": 100.0 * 1e9 / (kd * 30 * pop),
         "million dry caloric tons": 1.0 / 4000.0, "kcals per person per day": 1e9 / (30.0 * pop)}

    def gram(d):
        # thousand tons = 1e9 g
        return {"thousand tons": 1.0, "million tons": 1e-3, "billion people fed": 1.0 / (d * 30), "percent people fed": 100.0 * 1e9 / (d * 30 * pop),
                "effective kcals per person per day": 1e9 / (d * 30 * pop) * kd, "grams per person per day": 1e9 / (30.0 * pop)}

    return k, gram(fd), gram(pd)


def close(a, b):
    a, b = np.asarray(a, float), np.asarray(b, float)
    if a.shape != b.shape:
        return False
    return bool(np.all(np.abs(a - b) <= REL * np.maximum(np.abs(a), np.abs(b)) + 1e-300))


def run_resettings(case):
    """A history of set_nutrition_requirements calls, each changing one or more components, with conversions under
    every setting: the tables, the anchors and sampled conversions must follow the *current* setting."""
    from vlib import env

    env.boot(model=False)
    from src.food_system.food import Food

    rnd = random.Random(case["gen_seed"])
    conv = Food.conversions
    saved = dict(conv.__dict__)
    viol, seen, stats = [], collections.Counter(), collections.Counter()
    trail = []

    def bad(mech, msg, **d):
        seen[mech] += 1
        if seen[mech] <= 2:
            viol.append({"mech": mech, "msg": msg, "data": d})

    cur = {"kd": 2100.0, "fd": 47.0, "pd": 51.0, "pop": 7.8e9, "incf": True, "incp": True}
    draw = {"kd": lambda: rnd.choice([2100.0, 2345.0, rnd.uniform(500, 4000)]), "fd": lambda: rnd.choice([47.0, 61.7, rnd.uniform(5, 150)]),
            "pd": lambda: rnd.choice([51.0, 59.5, rnd.uniform(5, 150)]), "pop": lambda: rnd.choice([3.3e7, 4.5e7, 7.8e9, rnd.uniform(1e4, 1e10)]),
            "incf": lambda: rnd.random() < 0.5, "incp": lambda: rnd.random() < 0.5}
    try:
        for step in range(case["steps"]):
            if step:
                changed = rnd.sample(sorted(draw), rnd.choice([1, 1, 1, 2, 3]))
                for k in changed:
                    old = cur[k]
                    for _ in range(5):
                        cur[k] = draw[k]()
                        if cur[k] != old:
                            break
            else:
                changed = sorted(draw)
            trail.append(dict(cur, changed=changed))
            stats["changed:" + "+".join(sorted(c for c in changed if c in ("kd", "fd", "pd", "pop")))] += 1
            conv.set_nutrition_requirements(cur["kd"], cur["fd"], cur["pd"], cur["incf"], cur["incp"], cur["pop"])
            stats["settings_applied"] += 1
            kd, fd, pd_, pop = cur["kd"], cur["fd"], cur["pd"], cur["pop"]
            rk, rf, rp = ref_mult(kd, fd, pd_, pop)
            ctx = "after settings #%d (changed %s; history %d settings)" % (step, "+".join(changed), step + 1)
            probe = Food(1.0, 1.0, 1.0)
            for tab, ref, nut in ((probe.get_kcal_multipliers(), rk, "kcals"), (probe.get_fat_multipliers(), rf, "fat"), (probe.get_protein_multipliers(), rp, "protein")):
                for name, m in tab.items():
                    base = name.replace(" each month", "").replace(" per month", "")
                    stats["table_entries_checked"] += 1
                    if base in ref and not close(m, ref[base]):
                        bad("multiplier_stale_after_resetting", "%s: %s unit %r multiplier %.12g, current requirements give %.12g" % (ctx, nut, name, m, ref[base]),
                            unit=name, nutrient=nut, changed=changed, trail=trail[-2:])
            need = Food(conv.billion_kcals_needed, conv.thou_tons_fat_needed, conv.thou_tons_protein_needed, "billion kcals", "thousand tons", "thousand tons")
            wantneed = (kd * 30 * pop / 1e9, fd * 30 * pop / 1e9, pd_ * 30 * pop / 1e9)
            for nm, g, e in zip(("kcals", "fat", "protein"), (need.kcals, need.fat, need.protein), wantneed):
                stats["anchor_checks"] += 1
                if not close(g, e):
                    bad("monthly_requirement_wrong", "%s: %s monthly requirement %.12g, expected %.12g" % (ctx, nm, g, e), nutrient=nm, changed=changed)
            for s in SUFFIXES:
                if s == " each month":
                    nd = Food(np.array([wantneed[0]] * 2), np.array([wantneed[1]] * 2), np.array([wantneed[2]] * 2), "billion kcals" + s, "thousand tons" + s, "thousand tons" + s)
                else:
                    nd = Food(wantneed[0], wantneed[1], wantneed[2], "billion kcals" + s, "thousand tons" + s, "thousand tons" + s)
                for tgt, exp in ((("percent people fed",) * 3, (100.0, 100.0, 100.0)),
                                 (("kcals per person per day", "grams per person per day", "grams per person per day"), (kd, fd, pd_)),
                                 (("billion people fed",) * 3, (pop / 1e9,) * 3),
                                 (("kcals per person per day", "effective kcals per person per day", "effective kcals per person per day"), (kd, kd, kd))):
                    y = nd.in_units(*tgt)
                    stats["anchor_checks"] += 1
                    for nm, g, e in zip(("kcals", "fat", "protein"), (y.kcals, y.fat, y.protein), exp):
                        if not close(np.ravel(g)[0], e):
                            bad("anchor_identity_broken_after_resetting", "%s: monthly requirement%s -> %s: %s = %.12g, expected %.12g" % (ctx, s, tgt[0], nm, np.ravel(g)[0], e),
                                target=list(tgt), nutrient=nm, changed=changed, trail=trail[-2:])
            # sampled conversions under the current setting (these also warm whatever the implementation keeps between calls)
            bk, bf, bp = sorted(rk), sorted(rf), sorted(rp)
            for _ in range(30):
                s = rnd.choice(SUFFIXES)
                a, b, c = rnd.choice(bk), rnd.choice(bf), rnd.choice(bp)
                t = (rnd.choice(bk), rnd.choice(bf), rnd.choice(bp))
                if s == " each month":
                    vals = [np.array([rnd.uniform(0.001, 1e4) for _ in range(3)]) for _ in range(3)]
                else:
                    vals = [rnd.uniform(0.001, 1e4) for _ in range(3)]
                x = Food(vals[0], vals[1], vals[2], a + s, b + s, c + s)
                try:
                    y = x.in_units(*t)
                except AssertionError as err:
                    bad("supported_unit_rejected", "%s: %r -> %r: %s" % (ctx, (a + s, b + s, c + s), t, str(err)[:80]), frm=[a + s, b + s, c + s], to=list(t))
                    continue
                stats["conversions"] += 1
                want = (np.asarray(vals[0]) * rk[t[0]] / rk[a], np.asarray(vals[1]) * rf[t[1]] / rf[b], np.asarray(vals[2]) * rp[t[2]] / rp[c])
                for nm, g, wv in zip(("kcals", "fat", "protein"), (y.kcals, y.fat, y.protein), want):
                    if not close(g, wv):
                        bad("conversion_stale_after_resetting", "%s: %r -> %r %s: got %s, current requirements give %s" % (ctx, (a + s, b + s, c + s), t, nm, np.ravel(g)[:1], np.ravel(wv)[:1]),
                            frm=[a + s, b + s, c + s], to=list(t), nutrient=nm, changed=changed, trail=trail[-2:])
    finally:
        conv.__dict__.clear()
        conv.__dict__.update(saved)
    return {"viol": viol, "obs": {"stats": dict(stats), "samples": [], "pairs": [], "settings": {"history": trail[:3]}, "viol_counts": dict(seen)}}


def run_case(case, tier):
    import sys

    if case["kind"] == "resettings":
        return run_resettings(case)

    from vlib import env

    env.boot(model=False)
    from src.food_system.food import Food

    rnd = random.Random(case["gen_seed"])
    conv = Food.conversions
    saved = dict(conv.__dict__)
    viol, seen = [], collections.Counter()
    stats = collections.Counter()
    samples = []

    def bad(mech, msg, **d):
        seen[mech] += 1
        if seen[mech] <= 2:
            viol.append({"mech": mech, "msg": msg, "data": d})

    try:
        kd = rnd.choice([2100.0, 2345.0, 1800.0, rnd.uniform(500, 4000)])
        fd = rnd.choice([47.0, 55.5, rnd.uniform(5, 150)])
        pd_ = rnd.choice([51.0, 48.25, rnd.uniform(5, 150)])
        pop = rnd.choice([1e4, 3.3e7, 7.8e9, 1e10, rnd.uniform(1e4, 1e10)])
        conv.set_nutrition_requirements(kd, fd, pd_, rnd.random() < 0.5, rnd.random() < 0.5, pop)
        probe = Food(1.0, 1.0, 1.0)
        tk, tf, tp = probe.get_kcal_multipliers(), probe.get_fat_multipliers(), probe.get_protein_multipliers()
        names = (sorted(tk), sorted(tf), sorted(tp))
        stats["unit_names_kcals"], stats["unit_names_fat"], stats["unit_names_protein"] = len(tk), len(tf), len(tp)
        rk, rf, rp = ref_mult(kd, fd, pd_, pop)
        # every table entry against the independent anchor table
        for tab, ref, nut in ((tk, rk, "kcals"), (tf, rf, "fat"), (tp, rp, "protein")):
            for name, m in tab.items():
                base = name.replace(" each month", "").replace(" per month", "")
                if base not in ref:
                    bad("unit_without_anchor", "unit %r of %s has no anchor in the reference table" % (name, nut), unit=name)
                    continue
                stats["table_entries_checked"] += 1
                if not close(m, ref[base]):
                    bad("unit_multiplier_wrong", "%s unit %r: multiplier %.12g, anchored value %.12g (kcals_daily %.6g fat %.6g protein %.6g population %.6g)" % (
                        nut, name, m, ref[base], kd, fd, pd_, pop), unit=name, nutrient=nut)
        bases = ([n for n in names[0] if not n.endswith(" month")], [n for n in names[1] if not n.endswith(" month")], [n for n in names[2] if not n.endswith(" month")])
        froms = [(s, a, b, c) for s in SUFFIXES for a in bases[0] for b in bases[1] for c in bases[2]]
        tos = list(itertools.product(*bases))
        allcombos = len(froms) * len(tos)
        if case["tier"] == "thorough":
            work = [(f, t) for i, (f, t) in enumerate(itertools.product(froms, tos)) if i % case["nshards"] == case["shard"]]
            stats["exhaustive_triples"] = 1
        else:
            # every ordered (from, to) pair of every nutrient at least once per shard-set, other nutrients random; plus random triples
            work = []
            pairs = []
            for nut in range(3):
                for s in SUFFIXES:
                    for a in bases[nut]:
                        for b in bases[nut]:
                            pairs.append((nut, s, a, b))
            for i, (nut, s, a, b) in enumerate(pairs):
                if i % case["nshards"] != case["shard"]:
                    continue
                f = [rnd.choice(bases[0]), rnd.choice(bases[1]), rnd.choice(bases[2])]
                t = [rnd.choice(bases[0]), rnd.choice(bases[1]), rnd.choice(bases[2])]
                f[nut], t[nut] = a, b
                work.append(((s, f[0], f[1], f[2]), tuple(t)))
            for _ in range(150):
                work.append((rnd.choice(froms), rnd.choice(tos)))
        covered_pairs = set()
        for (s, a, b, c), t in work:
            monthly = s == " each month"
            n = rnd.choice([1, 3, 12]) if monthly else 0
            # magnitudes from a handful of kilograms or people (1e-12 in the "million"/"billion" units) to far above national totals
            mag = (lambda: 10 ** rnd.uniform(-12, 8)) if rnd.random() < 0.3 else (lambda: rnd.uniform(0.001, 1e4))
            if monthly:
                vals = [np.array([mag() for _ in range(n)]) for _ in range(3)]
            else:
                vals = [mag() for _ in range(3)]
            x = Food(vals[0], vals[1], vals[2], a + s, b + s, c + s)
            x0 = (np.array(x.kcals, float).copy(), np.array(x.fat, float).copy(), np.array(x.protein, float).copy(), list(x.units))
            where = "%r -> %r" % ((a + s, b + s, c + s), t)
            try:
                y = x.in_units(*t)
                back = y.in_units(a, b, c)
                w = rnd.choice(tos)
                via = x.in_units(*w).in_units(*t)
            except AssertionError as err:
                bad("supported_unit_rejected", "%s: %s" % (where, str(err)[:80]), frm=[a + s, b + s, c + s], to=list(t))
                continue
            stats["conversions"] += 1
            for nut, (fa, tb) in enumerate(((a, t[0]), (b, t[1]), (c, t[2]))):
                covered_pairs.add((nut, s, fa, tb))
            # anchored value
            want = (x0[0] * rk[t[0]] / rk[a], x0[1] * rf[t[1]] / rf[b], x0[2] * rp[t[2]] / rp[c])
            got = (y.kcals, y.fat, y.protein)
            for nm, g, wv in zip(("kcals", "fat", "protein"), got, want):
                if not close(g, wv):
                    bad("conversion_value_wrong", "%s %s: got %s, anchored value %s" % (where, nm, np.ravel(g)[:2], np.ravel(wv)[:2]), frm=[a + s, b + s, c + s], to=list(t), nutrient=nm)
            # labels and form
            exp = [t[0] + s, t[1] + s, t[2] + s]
            if [y.kcals_units, y.fat_units, y.protein_units] != exp or list(y.units) != exp:
                bad("conversion_labels_wrong", "%s: labels %s / list %s, expected %s" % (where, [y.kcals_units, y.fat_units, y.protein_units], y.units, exp), frm=[a + s, b + s, c + s], to=list(t))
            if monthly != isinstance(y.kcals, np.ndarray) or (monthly and len(y.kcals) != n):
                bad("conversion_changes_shape", "%s: monthly=%s but result type %s" % (where, monthly, type(y.kcals).__name__), frm=[a + s, b + s, c + s], to=list(t))
            # round trip
            if not (close(back.kcals, x0[0]) and close(back.fat, x0[1]) and close(back.protein, x0[2])):
                bad("round_trip_not_identity", "%s and back: %s -> %s" % (where, np.ravel(x0[0])[:2], np.ravel(back.kcals)[:2]), frm=[a + s, b + s, c + s], to=list(t))
            if [back.kcals_units, back.fat_units, back.protein_units] != x0[3]:
                bad("round_trip_labels", "%s and back: labels %s, originally %s" % (where, [back.kcals_units, back.fat_units, back.protein_units], x0[3]), frm=[a + s, b + s, c + s], to=list(t))
            # path independence
            if not (close(via.kcals, y.kcals) and close(via.fat, y.fat) and close(via.protein, y.protein)):
                bad("conversion_path_dependent", "%s: via %r gives %s, direct %s" % (where, w, np.ravel(via.kcals)[:2], np.ravel(y.kcals)[:2]), frm=[a + s, b + s, c + s], to=list(t), via=list(w))
            # operand untouched
            if not (np.array_equal(np.array(x.kcals, float), x0[0]) and list(x.units) == x0[3]):
                bad("conversion_mutates_operand", where, frm=[a + s, b + s, c + s], to=list(t))
            if len(samples) < 3:
                samples.append({"from": [a + s, b + s, c + s], "to": exp, "x": [float(np.ravel(v)[0]) for v in x0[:3]], "y": [float(np.ravel(v)[0]) for v in got]})
        # quantities derived from a series through the Food API (one month, first month, sum / minimum / maximum over months)
        # convert like constructor-built ones: value, form (per month / total) and round trip
        for _ in range(40):
            a, b, c = rnd.choice(bases[0]), rnd.choice(bases[1]), rnd.choice(bases[2])
            t = rnd.choice(tos)
            n = rnd.choice([1, 3, 12])
            vals = [np.array([rnd.uniform(0.001, 1e4) for _ in range(n)]) for _ in range(3)]
            ser = Food(vals[0], vals[1], vals[2], a + " each month", b + " each month", c + " each month")
            how = rnd.choice(["get_month", "get_first_month", "getitem", "get_nutrients_sum", "get_min_all_months", "get_max_all_months"])
            i = rnd.randrange(n)
            try:
                if how == "get_month":
                    x, suf, xv = ser.get_month(i), " per month", [v[i] for v in vals]
                elif how == "get_first_month":
                    x, suf, xv = ser.get_first_month(), " per month", [v[0] for v in vals]
                elif how == "getitem":
                    x, suf, xv = ser[i], " per month", [v[i] for v in vals]
                elif how == "get_nutrients_sum":
                    x, suf, xv = ser.get_nutrients_sum(), "", [v.sum() for v in vals]
                elif how == "get_min_all_months":
                    x, suf, xv = ser.get_min_all_months(), "", [v.min() for v in vals]
                else:
                    x, suf, xv = ser.get_max_all_months(), "", [v.max() for v in vals]
                y = x.in_units(*t)
                back = y.in_units(a, b, c)
            except AssertionError as err:
                bad("supported_unit_rejected", "%s of a series in %r -> %r: %s" % (how, (a, b, c), t, str(err)[:80]), how=how, frm=[a, b, c], to=list(t))
                continue
            stats["derived_conversions"] += 1
            where = "%s of a series in %r -> %r" % (how, (a, b, c), t)
            exp = [t[0] + suf, t[1] + suf, t[2] + suf]
            if [y.kcals_units, y.fat_units, y.protein_units] != exp or list(y.units) != exp or isinstance(y.kcals, np.ndarray):
                bad("derived_quantity_changes_form", "%s: converted labels %s / list %s (%s), expected %s as a single value" % (
                    where, [y.kcals_units, y.fat_units, y.protein_units], list(y.units), type(y.kcals).__name__, exp), how=how, frm=[a, b, c], to=list(t))
                continue
            want = (xv[0] * rk[t[0]] / rk[a], xv[1] * rf[t[1]] / rf[b], xv[2] * rp[t[2]] / rp[c])
            for nm, g, wv in zip(("kcals", "fat", "protein"), (y.kcals, y.fat, y.protein), want):
                if not close(g, wv):
                    bad("conversion_value_wrong", "%s %s: got %s, anchored value %s" % (where, nm, g, wv), how=how, frm=[a, b, c], to=list(t), nutrient=nm)
            orig = [a + suf, b + suf, c + suf]
            if [back.kcals_units, back.fat_units, back.protein_units] != orig or list(back.units) != orig or not (close(back.kcals, xv[0]) and close(back.fat, xv[1]) and close(back.protein, xv[2])):
                bad("round_trip_not_identity", "%s and back: labels %s values %s, originally %s %s" % (where, [back.kcals_units, back.fat_units, back.protein_units], back.kcals, orig, xv[0]), how=how, frm=[a, b, c], to=list(t))
        stats["distinct_nutrient_pairs"] = len(covered_pairs)
        stats["all_triple_combinations"] = allcombos
        # anchors
        for s in SUFFIXES:
            if s == " each month":
                need = Food(np.array([conv.billion_kcals_needed] * 3), np.array([conv.thou_tons_fat_needed] * 3), np.array([conv.thou_tons_protein_needed] * 3),
                            "billion kcals" + s, "thousand tons" + s, "thousand tons" + s)
            else:
                need = Food(conv.billion_kcals_needed, conv.thou_tons_fat_needed, conv.thou_tons_protein_needed, "billion kcals" + s, "thousand tons" + s, "thousand tons" + s)
            for tgt, exp in ((("percent people fed",) * 3, (100.0, 100.0, 100.0)),
                             (("kcals per person per day", "grams per person per day", "grams per person per day"), (kd, fd, pd_)),
                             (("billion people fed",) * 3, (pop / 1e9,) * 3),
                             (("kcals per person per day", "effective kcals per person per day", "effective kcals per person per day"), (kd, kd, kd))):
                y = need.in_units(*tgt)
                stats["anchor_checks"] += 1
                for nm, g, e in zip(("kcals", "fat", "protein"), (y.kcals, y.fat, y.protein), exp):
                    if not close(np.ravel(g)[0], e):
                        bad("anchor_identity_broken", "monthly requirement%s -> %s: %s = %.12g, expected %.12g" % (s, tgt[0], nm, np.ravel(g)[0], e), target=list(tgt), nutrient=nm)
            # named helpers agree with in_units
            for helper, tgt in (("in_units_billions_fed", ("billion people fed",) * 3), ("in_units_percent_fed", ("percent people fed",) * 3),
                                ("in_units_kcals_equivalent", ("kcals per person per day", "effective kcals per person per day", "effective kcals per person per day")),
                                ("in_units_kcals_grams_grams_per_person", ("kcals per person per day", "grams per person per day", "grams per person per day")),
                                ("in_units_bil_kcals_thou_tons_thou_tons_per_month", ("billion kcals", "thousand tons", "thousand tons"))):
                h = getattr(need, helper)()
                d = need.in_units(*tgt)
                stats["helper_checks"] += 1
                if not (close(h.kcals, d.kcals) and close(h.fat, d.fat) and close(h.protein, d.protein) and list(h.units) == list(d.units)):
                    bad("helper_differs_from_in_units", "%s%s differs from in_units%r" % (helper, s, tgt), helper=helper)
            # the helper that takes the food's energy density and nutrient contents as arguments (documented for billion kcals /
            # thousand tons per month or each month): with unit ratios it is the per-person conversion, and it is linear in each ratio
            if s in (" each month", " per month"):
                tgt = ("kcals per person per day", "grams per person per day", "grams per person per day")
                for kr, fr, pr in ((1.0, 1.0, 1.0), (rnd.uniform(0.2, 5), rnd.uniform(0.2, 5), rnd.uniform(0.2, 5))):
                    stats["helper_checks"] += 1
                    try:
                        h = need.in_units_kcals_grams_grams_per_person_from_ratio(kr, fr, pr)
                    except Exception as err:  # noqa: BLE001
                        bad("helper_differs_from_in_units", "in_units_kcals_grams_grams_per_person_from_ratio%s raised %r" % (s, err), helper="from_ratio")
                        continue
                    want = (kd * kr, fd * kr * fr, pd_ * kr * pr)
                    got = (np.ravel(h.kcals)[0], np.ravel(h.fat)[0], np.ravel(h.protein)[0])
                    if not all(close(g, w) for g, w in zip(got, want)) or [u.replace(s, "") for u in (h.kcals_units, h.fat_units, h.protein_units)] != list(tgt):
                        bad("helper_differs_from_in_units", "monthly requirement%s through in_units_kcals_grams_grams_per_person_from_ratio(%.4g, %.4g, %.4g) gives %s %s, expected the daily requirement per person x the ratios %s" % (
                            s, kr, fr, pr, [float("%.8g" % g) for g in got], [h.kcals_units, h.fat_units, h.protein_units], [float("%.8g" % w) for w in want]), helper="from_ratio")
    finally:
        conv.__dict__.clear()
        conv.__dict__.update(saved)
    return {"viol": viol, "obs": {"stats": dict(stats), "samples": samples, "pairs": sorted("%d|%s|%s|%s" % p for p in covered_pairs), "settings": {"kcals_daily": kd, "fat_daily": fd, "protein_daily": pd_, "population": pop},
                                   "viol_counts": dict(seen)}}


def summarize(cases, records, tier):
    ok = [r for r in records if r.get("status") == "ok"]
    tot = collections.Counter()
    for r in ok:
        tot.update({k: v for k, v in r["obs"]["stats"].items() if k not in ("unit_names_kcals", "unit_names_fat", "unit_names_protein", "all_triple_combinations", "exhaustive_triples", "distinct_nutrient_pairs")})
    names = ok[0]["obs"]["stats"] if ok else {}
    pairs_total = 3 * (5 * 5 + 6 * 6 + 6 * 6)
    cov = {
        "evaluations": int(tot.get("conversions", 0)),
        "distinct_nontrivial": len({p for r in ok for p in r["obs"].get("pairs", [])}),
        "rule": "evaluations = (from-unit triple, to-unit triple) conversions executed with generated values and process settings, each with value anchor, labels, shape, round trip, path independence and operand checks; "
                "quick: every ordered (from,to) pair of every nutrient and suffix class is placed in some triple (distinct_nontrivial = distinct (nutrient, suffix class, from, to) unit pairs covered, union over shards); "
                "thorough: all suffix x from-triple x to-triple combinations, partitioned over shards",
        "samples": [s for r in ok[:3] for s in r["obs"]["samples"][:1]] or [{"note": "none"}],
        "unit_names": {k: names.get(k) for k in ("unit_names_kcals", "unit_names_fat", "unit_names_protein")},
        "ordered_pairs_per_nutrient_and_suffix_total": pairs_total,
        "table_entries_checked_against_anchor": int(tot.get("table_entries_checked", 0)),
        "anchor_identity_checks": int(tot.get("anchor_checks", 0)), "helper_checks": int(tot.get("helper_checks", 0)),
        "settings_drawn": [r["obs"]["settings"] for r in ok[:4]],
        "resetting_histories": {"settings_applied": int(tot.get("settings_applied", 0)),
                                "changes_by_component_set": {k[8:] or "flags only": int(v) for k, v in sorted(tot.items()) if k.startswith("changed:")}},
        "exhaustive": tier == "thorough",
    }
    if cov["distinct_nontrivial"] < pairs_total:
        cov["inconclusive_reason"] = "only %d of %d ordered unit pairs covered" % (cov["distinct_nontrivial"], pairs_total)
    if tot.get("changed:fd", 0) < 3 or tot.get("changed:pd", 0) < 3 or tot.get("changed:pop", 0) < 3 or tot.get("changed:kd", 0) < 3:
        cov["inconclusive_reason"] = "re-setting histories changed some single requirement component fewer than 3 times"
    cov["conversions_of_derived_quantities"] = int(tot.get("derived_conversions", 0))
    if cov["conversions_of_derived_quantities"] == 0:
        cov["inconclusive_reason"] = "no derived quantity was converted"
    if not ok:
        cov["inconclusive_reason"] = "no case completed"
    return cov
