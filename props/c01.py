"""C01 — reported allocations never use food that does not exist."""
import collections

from props import pipeline
from vlib import ledger, workload

ASSUMPTIONS = [
    "supplies are taken from a deep copy of the dictionaries made at the entry of ScenarioRunner.run_optimizer, before the Optimizer object exists; the dictionaries the optimiser holds afterwards must still be equal to it",
    "variable values are read after the last (smoothing) solve, i.e. the allocation the extractor reports",
    "tolerance |residual| <= 1e-5 + 2e-6*scale (scale = cumulative supply / largest monthly supply of the ledger row)",
    "a run that raises contributes only the LPs solved before the exception",
]


def gen_cases(tier, seed):
    return workload.pipeline_grid(tier, seed)


def monitor(tr, case):
    viol = []
    lps = []
    for k, lp in enumerate(tr.lps):
        v, st = ledger.audit(lp)
        ch = getattr(lp, "inputs_changed", None)
        if ch:
            # the ledger above is audited against the supplies as handed over; the optimiser must not have worked from others
            v.append({"mech": "optimiser_changed_the_supplies_it_was_given", "msg": "between hand-over and solve these inputs changed: %s" % ch[:5], "data": {"changed": ch[:8]}})
        for x in v:
            x["data"].update(iso=case["iso"], round=k + 1, tag=case.get("tag"))
            x["msg"] = "%s round %d (%s): %s" % (case["iso"], k + 1, lp.kind, x["msg"])
        viol += v
        lps.append({"kind": st["kind"], "N": st["N"], "store": st["store"], "families": st["families"],
                    "maxres": {a: round(b, 12) for a, b in st["maxres"].items() if not a.startswith("neg:")},
                    "min_value_rel": max([b for a, b in st["maxres"].items() if a.startswith("neg:")] or [0])})
    return viol, {"audited": len(lps), "lps": lps, "month_ledgers": sum(x["N"] for x in lps)}


def run_case(case, tier):
    return pipeline.run(case, monitor)


def summarize(cases, records, tier):
    def nontrivial(r):
        return any(f.get("active") for lp in r["obs"]["lps"] for f in lp["families"].values())

    cov, ok, audited = pipeline.base_summary(
        cases, records, nontrivial,
        "one case = one three-round run of (country, option vector) from the pairwise/preset/random grid; evaluations = LPs audited; "
        "non-trivial = at least one ledger family (stored food, crops, meat, SCP, sugar, seaweed, feed) had non-zero supply and non-zero use; distinct by (iso, option vector)",
        lambda r: {"iso": r["obs"]["iso"], "tag": r["obs"]["tag"],
                   "lps": [{"kind": lp["kind"], "months": lp["N"], "max_residuals_rel": lp["maxres"]} for lp in r["obs"]["lps"]]},
        min_audited=max(10, len(cases) // 3))
    by_kind = collections.Counter()
    fam_active = collections.Counter()
    fam_binding = collections.Counter()
    maxres = {}
    months = 0
    for r in audited:
        months += r["obs"]["month_ledgers"]
        for lp in r["obs"]["lps"]:
            by_kind[lp["kind"] + ("" if lp["store"] else "/no_storage_between_years")] += 1
            for f, d in lp["families"].items():
                fam_active[f] += bool(d["active"])
                fam_binding[f] += bool(d["binding"])
            for a, b in lp["maxres"].items():
                maxres[a] = max(maxres.get(a, -1e300), b)
    cov.update(lps_by_round_type=dict(by_kind), month_ledgers=months, ledger_family_active_in_lps=dict(fam_active),
               ledger_family_binding_in_lps=dict(fam_binding), max_relative_residual_by_ledger_row=maxres)
    for need in ("stored_food", "crops", "meat", "seaweed", "scp", "cell_sugar", "feed_ceiling"):
        if fam_active.get(need, 0) == 0 and "inconclusive_reason" not in cov:
            cov["inconclusive_reason"] = "ledger family %s never active in any audited LP" % need
    return cov
