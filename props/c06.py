"""C06 — herd head-count ledger balances every month."""
import collections

import numpy as np

from props import herd

ASSUMPTIONS = [
    "list alignment with remove_first_month=0: population / slaughter / other_death* / homekill* have N+1 entries (month-zero baseline first); births_animals_month, transfer_population, retiring_milk_animals, transfer_births have N",
    "ledger: pop[m+1] = max(0, pop[m] + births + transfer_in - retirements - natural deaths - slaughter - starvation deaths - homekill(healthy+starving)); tolerance 1e-9 relative to the herd",
    "slaughter capacity per size class = value returned by calculate_net_slaughter_hours_by_size in that month (recorded by wrapping)",
]


def gen_cases(tier, seed):
    return herd.gen_cases(tier, seed, "C06")


def L(a, n):
    return np.array(getattr(a, n), dtype=float)


def run_case(case, tier):
    try:
        h = herd.run_herd(case)
    except (AssertionError, ValueError, ZeroDivisionError, KeyError, IndexError, TypeError) as e:
        return {"viol": [{"mech": "herd_simulation_raised", "msg": "%s/%s/%s: main() raised %r" % (case["iso"], case["strategy"], case["shape"], e), "data": {"iso": case["iso"]}}],
                "obs": {"iso": case["iso"], "strategy": case["strategy"], "shape": case["shape"], "N": case["N"], "species": 0, "species_months": 0, "worst_rel_err": 0.0,
                        "active": {k: 0 for k in ("births", "transfer", "slaughter", "starve", "homekill", "clamp", "target_floor", "hours_binding")}, "feed_used_frac": None}}
    animals, N = h["animals"], h["N"]
    viol = []

    def bad(mech, msg, **d):
        d.update(iso=case["iso"], strategy=case["strategy"], shape=case["shape"])
        viol.append({"mech": mech, "msg": "%s/%s/%s %s" % (case["iso"], case["strategy"], case["shape"], msg), "data": d})

    for line in (h.get("wrapper_diff") or [])[:3]:
        bad("wrapper_series_differ_from_direct_run", "through CalculateFeedAndMeat: " + line)

    bymilk = {a.animal_species: a for a in animals if a.animal_function == "milk"}
    worst = 0.0
    nsp = 0
    active = {"births": 0, "transfer": 0, "slaughter": 0, "starve": 0, "homekill": 0, "clamp": 0, "target_floor": 0, "hours_binding": 0}
    for a in animals:
        nsp += 1
        pop = L(a, "population")
        if len(pop) != N + 1:
            bad("list_length", "%s population has %d entries for %d months" % (a.animal_type, len(pop), N), species=a.animal_type)
            continue
        births = L(a, "births_animals_month")
        tp = L(a, "transfer_population")
        od = L(a, "other_death_causes_other_than_starving")[1:]
        sl = L(a, "slaughter")[1:]
        st = L(a, "other_death_starving")[1:]
        hk = L(a, "homekill_healthy_this_month")[1:] + L(a, "homekill_starving_this_month")[1:]
        if not (len(births) == len(tp) == len(od) == len(sl) == len(st) == len(hk) == N):
            bad("list_length", "%s flow lists have lengths %s for %d months" % (a.animal_type, [len(births), len(tp), len(od), len(sl), len(st), len(hk)], N), species=a.animal_type)
            continue
        if a.animal_function == "milk":
            ret = L(a, "retiring_milk_animals")
            inn, out = births, ret
            tin = -tp  # recorded with a minus sign on the dairy side
        else:
            inn, out = births + tp, np.zeros(N)
            tin = tp
        raw = pop[:-1] + inn - out - od - sl - st - hk
        exp = np.maximum(0, raw)
        err = np.abs(exp - pop[1:]) / np.maximum(1.0, pop[:-1])
        worst = max(worst, float(err.max()))
        if err.max() > 1e-9:
            m = int(err.argmax())
            bad("ledger_unbalanced", "%s month %d: end count %.6f, ledger gives %.6f (start %.6f births %.4f transfer %.4f retire %.4f deaths %.4f slaughter %.4f starved %.4f homekill %.4f)" % (
                a.animal_type, m, pop[m + 1], exp[m], pop[m], births[m], tin[m], out[m] if np.ndim(out) else 0, od[m], sl[m], st[m], hk[m]),
                species=a.animal_type, month=m, relerr=float(err.max()))
        for nm, arr in (("population", pop), ("births", births), ("natural_deaths", od), ("slaughter", sl), ("starvation_deaths", st),
                        ("homekill", hk), ("transfer_in", tin), ("retirements", out)):
            arr = np.asarray(arr, float)
            if arr.size and arr.min() < -1e-9 * max(1.0, pop.max()):
                neg = np.where(arr < -1e-9 * max(1.0, pop.max()))[0]
                if nm == "births" and getattr(a, "births_animals_month_baseline", 0) < 0 and a.animal_function != "milk" and neg[0] == 0:
                    # the meat herd's baseline births are computed as a residual (deaths + slaughter - calves and retirees
                    # received from the dairy herd of the species) and are negative when the dairy transfers exceed the turnover;
                    # they are what month 0 records - and only month 0: later months are computed from the pregnant animals
                    bad("negative_baseline_births_of_meat_herd", "%s births month 0 = %.6g" % (a.animal_type, arr[0]), species=a.animal_type, flow=nm, month=0)
                    neg = neg[1:]
                if len(neg):
                    m = int(neg[np.argmin(arr[neg])])
                    bad("negative_stock_or_flow", "%s %s month %d = %.6g" % (a.animal_type, nm, m, arr[m]), species=a.animal_type, flow=nm, month=m)
        if not np.isfinite(pop).all():
            bad("non_finite_population", "%s population not finite" % a.animal_type, species=a.animal_type)
        if a.animal_function != "milk" and a.animal_species in bymilk:
            mk = bymilk[a.animal_species]
            want = L(mk, "retiring_milk_animals") + L(mk, "transfer_births")
            d = np.abs(tp - want)
            if d.max() > 1e-9 * max(1.0, want.max()):
                m = int(d.argmax())
                bad("transfer_mismatch", "%s month %d: added to meat herd %.6f, dairy retired+male calves %.6f" % (a.animal_species, m, tp[m], want[m]), species=a.animal_species, month=m)
            if tp.max() > 0:
                active["transfer"] += 1
        elif a.animal_function != "milk":
            # no dairy herd of this species: nothing can be transferred in
            if np.abs(tp).max() > 1e-9:
                m = int(np.abs(tp).argmax())
                bad("transfer_without_dairy_herd", "%s month %d: %.6f head transferred into the herd but the species (%s) has no dairy herd" % (a.animal_type, m, tp[m], a.animal_species),
                    species=a.animal_type, month=m)
        pre = pop[:-1] + inn - out - od
        if ((sl > pre + 1e-6 * np.maximum(1.0, pre)) & (sl > 1e-9)).any():
            m = int((sl - pre).argmax())
            bad("slaughter_exceeds_available", "%s month %d: slaughter %.4f > available %.4f" % (a.animal_type, m, sl[m], pre[m]), species=a.animal_type, month=m)
        tgt = float(a.target_population_head)
        below = (pre >= tgt) & (pre - sl < tgt - 1e-6 * max(1.0, tgt))
        if below.any():
            m = int(np.where(below)[0][0])
            bad("slaughter_below_target", "%s month %d: herd %.4f - slaughter %.4f < target %.4f" % (a.animal_type, m, pre[m], sl[m], tgt), species=a.animal_type, month=m)
        if ((pre >= tgt) & (np.abs(pre - sl - tgt) <= 1e-6 * max(1.0, tgt)) & (sl > 0)).any():
            active["target_floor"] += 1
        active["births"] += births.max() > 0
        active["slaughter"] += sl.max() > 0
        active["starve"] += st.max() > 0
        active["homekill"] += hk.max() > 0
        active["clamp"] += bool(((raw < 0) & (pop[:-1] > 0)).any())
    # conservation over the whole run: head entering meat herds by transfer = head leaving dairy herds (retired + male calves)
    tin_all = sum((L(a, "transfer_population") for a in animals if a.animal_function != "milk"), np.zeros(N))
    # (a dairy herd whose species has no meat herd in the run - India's cattle, left out on purpose - has nowhere to transfer to
    # and is not part of the clause)
    meat_species = {a.animal_species for a in animals if a.animal_function != "milk"}
    tout_all = sum((L(a, "retiring_milk_animals") + L(a, "transfer_births") for a in animals if a.animal_function == "milk" and a.animal_species in meat_species), np.zeros(N))
    if np.shape(tin_all) == np.shape(tout_all) and np.abs(tin_all - tout_all).max() > 1e-9 * max(1.0, float(np.max(tout_all))):
        m = int(np.abs(tin_all - tout_all).argmax())
        bad("transfer_not_conserved", "month %d: %.4f head entered meat herds by transfer, %.4f left dairy herds" % (m, tin_all[m], tout_all[m]), month=m)
    hours = h["hours"]
    if len(hours) != N:
        bad("hours_recorder", "slaughter-hour budget computed %d times in %d months" % (len(hours), N))
    else:
        for size in ("small", "medium", "large"):
            used = np.zeros(N)
            for a in animals:
                if a.animal_size == size:
                    used += L(a, "slaughter")[1:] * a.animal_slaughter_hours
            cap = np.array([hh[size] for hh in hours], float)
            # the class's baseline capacity recomputed from the species themselves (hours per head x baseline slaughter per month)
            indep = sum(a.animal_slaughter_hours * a.baseline_slaughter for a in animals if a.animal_size == size and not np.isnan(a.animal_slaughter_hours * a.baseline_slaughter))
            if np.abs(cap - indep).max() > 1e-9 * max(1.0, abs(indep)):
                bad("slaughter_budget_differs_from_baseline_capacity", "size %s: monthly budget %.6f, baseline capacity of that class %.6f" % (size, cap[int(np.abs(cap - indep).argmax())], indep), size=size)
                cap = np.full(N, indep)
            over = used - cap
            if over.max() > 1e-9 * max(1.0, cap.max()) + 1e-6:
                m = int(over.argmax())
                bad("slaughter_hours_exceed_capacity", "size %s month %d: %.4f hours used, capacity %.4f" % (size, m, used[m], cap[m]), size=size, month=m)
            if (np.abs(over) <= 1e-9 * np.maximum(1.0, cap))[cap > 0].any():
                active["hours_binding"] += 1
    obs = {"iso": case["iso"], "strategy": case["strategy"], "shape": case["shape"], "N": N, "species": nsp, "species_months": nsp * N,
           "worst_rel_err": worst, "active": {k: int(v) for k, v in active.items()},
           "feed_used_frac": float(h["feed_used"].sum() / max(1e-12, h["feed_in"].sum())) if h["feed_in"].sum() > 0 else None}
    return {"viol": viol, "obs": obs}


def summarize(cases, records, tier):
    ok = [r for r in records if r.get("status") == "ok"]
    act = collections.Counter()
    for r in ok:
        for k, v in r["obs"]["active"].items():
            act[k] += v
    nt = {(r["obs"]["iso"], r["obs"]["strategy"], r["obs"]["shape"], r["obs"]["N"]) for r in ok
          if r["obs"]["active"]["slaughter"] > 0 and r["obs"]["active"]["births"] > 0}
    cov = {
        "evaluations": int(sum(r["obs"]["species_months"] for r in ok)),
        "distinct_nontrivial": len(nt),
        "rule": "one case = one herd run main(iso, feed, grass, strategy) with a generated supply shape and horizon; evaluations = species-months whose ledger row was checked; "
                "non-trivial = a run with births and slaughter; distinct by (iso, strategy, supply shape, horizon)",
        "samples": [{k: r["obs"][k] for k in ("iso", "strategy", "shape", "N", "species", "worst_rel_err", "active")} for r in ok[:: max(1, len(ok) // 8)]][:10] or [{"note": "none"}],
        "herd_runs": len(ok), "countries": len({r["obs"]["iso"] for r in ok}),
        "species_runs_with_mechanism_active": dict(act),
        "max_ledger_relative_error": max([r["obs"]["worst_rel_err"] for r in ok] or [0]),
        "exhaustive": False,
    }
    cov["note_homekill"] = "home-kill is switched off in the shipped configuration (CountryData.calculate_homekill_hours appends 0 hours, homekill_fraction = 0), so its ledger term is exercised only at zero"
    for need in ("transfer", "starve", "clamp", "target_floor", "hours_binding"):
        if act.get(need, 0) == 0:
            cov["inconclusive_reason"] = "mechanism never active: " + need
    if len(ok) < 0.8 * len(cases):
        cov["inconclusive_reason"] = "only %d of %d herd runs completed" % (len(ok), len(cases))
    return cov
