"""C04 — headline, monthly breakdown and saved tables agree."""
import os
import re

import numpy as np

from props import pipeline
from vlib import workload

ASSUMPTIONS = [
    "reporting unit conversion recomputed independently: percent fed = allocation[billion kcal] * 1e9 / (30 * KCALS_DAILY * POP) * 100; kcal-equivalent = percent/100 * KCALS_DAILY",
    "stored-food and outdoor-crop percent series are rounded to 3 decimals by the interpreter: compared with 6e-4 absolute tolerance; all other series 1e-9 relative",
    "headline vs optimiser objective compared in human-maximising rounds only (|diff| <= 1e-4 * objective + 1e-5 percentage points: below 0.1 % fed the solver's absolute feasibility tolerance dominates)",
    "CSV compared bit for bit after a round-trip float parse",
]

KE = ["fish", "cell_sugar", "scp", "greenhouse", "seaweed", "milk", "meat", "immediate_outdoor_crops",
      "new_stored_outdoor_crops", "stored_food"]


def gen_cases(tier, seed):
    cases = workload.pipeline_grid(tier, seed)
    # runs in which the herd model yields less meat with feed than without, so that the feed round is abandoned and the final round
    # repeats the first (a purely data-driven branch: Lesotho under delayed shut-offs, Chad with present-day pasture): the run still
    # ends with its final solve and final table
    extra = [("LSO", dict(scenario="all_resilient_foods", shutoff="long_delayed_shutoff", meat_strategy="reduce_breeding")),
             ("LSO", dict(scenario="no_resilient_foods", shutoff="short_delayed_shutoff", meat_strategy="reduce_breeding")),
             ("TCD", dict(scenario="cellulosic_sugar", shutoff="long_delayed_shutoff", meat_strategy="feed_only_ruminants", grasses="baseline"))]
    if tier == "thorough":
        extra += [("LSO", dict(scenario=sc, shutoff=sh, meat_strategy=ms, NMONTHS=n)) for sc in ("all_resilient_foods", "seaweed", "no_resilient_foods", "industrial_foods")
                  for sh in ("long_delayed_shutoff", "short_delayed_shutoff", "one_month_delayed_shutoff") for ms in ("reduce_breeding", "baseline_breeding") for n in (120, 72)]
    for iso, kw in extra:
        c = workload.pipeline_case(iso, workload.base_country(**kw), "feed_round_abandoned/%s/%s" % (kw["scenario"], kw["shutoff"]))
        c["id"] = "%s/%s#x%d" % (iso, c["tag"], len(cases))
        cases.append(c)
    return cases


def _close(a, b, rel=1e-9, ab=1e-9):
    a, b = np.asarray(a, float), np.asarray(b, float)
    return float(np.max(np.abs(a - b) - rel * np.maximum(np.abs(a), np.abs(b)))) <= ab


STALE = "month,stale table of an earlier run under the same title\n"


def final_table_path(scratch, title):
    return os.path.join(scratch, "results", re.sub(r'[\\/*?:"<>|\n]', "_", (title or "") + "_round3") + "_ykcals.csv")


def monitor(tr, case):
    viol, rounds = [], []

    def bad(mech, msg, **d):
        d.update(iso=case["iso"], tag=case.get("tag"))
        viol.append({"mech": mech, "msg": "%s %s" % (case["iso"], msg), "data": d})

    # the table of the run's returned (final) result: every run ends with the solve titled "<title>_round3", whose table is the
    # one the web front end reads.  A table of an earlier run under the same title was planted there before the run (run_case):
    # it must have been replaced by the numbers of the result this run returned
    fin = final_table_path(tr.scratch, tr.title)
    if tr.error is None and tr.result is not None and case.get("planted_final_table"):
        txt = open(fin).read() if os.path.exists(fin) else None
        if txt is None or txt == STALE:
            bad("final_table_not_written", "the run returned a result (%.6f %% fed) but %s: what is read from results/%s is not this run's" % (
                tr.result.percent_people_fed, "no final table exists" if txt is None else "the table an earlier run left under the same title is still in place", os.path.basename(fin)),
                rounds_solved=len(tr.lps))
        else:
            import io
            import pandas as pd

            df = pd.read_csv(io.StringIO(txt), index_col=0, float_precision="round_trip")
            for n in KE:
                b = np.asarray(getattr(tr.result, n + "_kcals_equivalent").kcals, float)
                if n not in df.columns or len(df) != len(b) or not np.array_equal(df[n].values.astype(float), b):
                    bad("final_table_differs_from_returned_result", "column %s of results/%s is not the returned result's series" % (n, os.path.basename(fin)), column=n)
                    break
    for k, lp in enumerate(tr.lps):
        ir = lp.interp
        if ir is None:
            continue
        c, t, N = lp.consts, lp.time_consts, lp.N
        KD, POP = float(c["inputs"]["NUTRITION"]["KCALS_DAILY"]), float(c["inputs"]["POP"])  # scenario inputs, not derived constants
        fac = 1e9 / (30.0 * KD * POP) * 100.0
        rd = {"round": k + 1, "kind": lp.kind, "N": N}
        head = ir.percent_people_fed
        # (a) headline = min over months of the sum of reported percent contributions
        pct = {n: np.asarray(getattr(ir, n).kcals, float) for n in
               ("stored_food", "outdoor_crops", "seaweed", "cell_sugar", "scp", "greenhouse", "fish", "meat", "milk")}
        s = sum(pct.values())
        if abs(head - s.min()) > 0.002:
            bad("headline_differs_from_min_of_monthly_sum", "round %d: headline %.6f but min over months of summed contributions %.6f" % (k + 1, head, s.min()), round=k + 1)
        # (b) same in kcal-equivalent (unrounded)
        ke = {n: np.asarray(getattr(ir, n + "_kcals_equivalent").kcals, float) for n in KE}
        s2 = sum(ke.values()) / KD * 100.0
        if abs(head - s2.min()) > 1e-9 * max(1.0, abs(head)) + 1e-9:
            bad("headline_differs_from_min_of_kcal_equivalent_sum", "round %d: headline %.10f vs %.10f from kcal-equivalent series" % (k + 1, head, s2.min()), round=k + 1)
        rd["headline"] = head
        rd["min_sum_pct"] = float(s.min())
        # (c) each food's series = allocation converted to the reporting unit
        alloc = {
            "stored_food": lp.val("stored_food_to_humans") if lp.has("stored_food_to_humans") else np.zeros(N),
            "outdoor_crops": lp.val("crops_food_to_humans") if lp.has("crops_food_to_humans") else np.zeros(N),
            "seaweed": (lp.val("seaweed_to_humans") * c["SEAWEED_KCALS"]) if lp.has("seaweed_to_humans") else np.zeros(N),
            "cell_sugar": lp.val("cellulosic_sugar_to_humans") if lp.has("cellulosic_sugar_to_humans") else np.zeros(N),
            "scp": lp.val("methane_scp_to_humans") if lp.has("methane_scp_to_humans") else np.zeros(N),
            "meat": lp.val("meat_eaten") if lp.has("meat_eaten") else np.zeros(N),
            "milk": np.asarray(t["milk_kcals"], float),
            "fish": np.asarray(t["fish"].to_humans.kcals, float),
            "greenhouse": np.asarray(t["greenhouse_crops"].kcals, float),
        }
        nact = 0
        for n, a in alloc.items():
            want = a * fac
            got = pct[n]
            if want.max() > 1e-6:
                nact += 1
            rounded = n in ("stored_food", "outdoor_crops")
            d = np.abs(got - want)
            lim = 6e-4 if rounded else 1e-9 * max(1.0, float(np.abs(want).max())) + 1e-9
            if d.max() > lim:
                m = int(d.argmax())
                bad("contribution_differs_from_allocation", "round %d %s month %d: reported %.8g%% but allocation converts to %.8g%%" % (k + 1, n, m, got[m], want[m]),
                    round=k + 1, food=n, month=m)
            if n != "outdoor_crops":
                wk = want / 100.0 * KD
                gk = ke[n]
                if not _close(gk, wk, 1e-9, 1e-9 * max(1.0, float(np.abs(wk).max()))):
                    m = int(np.abs(gk - wk).argmax())
                    bad("kcal_equivalent_differs_from_allocation", "round %d %s month %d: reported %.8g kcal/person/day, allocation converts to %.8g" % (k + 1, n, m, gk[m], wk[m]),
                        round=k + 1, food=n, month=m)
        # the fat and protein components of the same contributions, for the foods whose fat/protein follow their allocation by a
        # fixed nutrient content (crops carry their own, separately allocated, fat and protein variables; meat and milk are C05's)
        FD, PD = float(c["inputs"]["NUTRITION"]["FAT_DAILY"]), float(c["inputs"]["NUTRITION"]["PROTEIN_DAILY"])
        facf, facp = 1e9 / (30.0 * FD * POP) * 100.0, 1e9 / (30.0 * PD * POP) * 100.0
        sw = lp.val("seaweed_to_humans") if lp.has("seaweed_to_humans") else np.zeros(N)
        nutrient = {
            "stored_food": (alloc["stored_food"] * c.get("SF_FRACTION_FAT", 0), alloc["stored_food"] * c.get("SF_FRACTION_PROTEIN", 0)),
            "seaweed": (sw * c.get("SEAWEED_FAT", 0), sw * c.get("SEAWEED_PROTEIN", 0)),
            "scp": (alloc["scp"] * c.get("SCP_KCALS_TO_FAT_CONVERSION", 0), alloc["scp"] * c.get("SCP_KCALS_TO_PROTEIN_CONVERSION", 0)),
            "fish": (np.asarray(t["fish"].to_humans.fat, float), np.asarray(t["fish"].to_humans.protein, float)),
            "greenhouse": (np.asarray(t["greenhouse_crops"].fat, float), np.asarray(t["greenhouse_crops"].protein, float)),
        }
        for n, (af, ap) in nutrient.items():
            f = getattr(ir, n)
            for nm, got, want in (("fat", np.asarray(f.fat, float), af * facf), ("protein", np.asarray(f.protein, float), ap * facp)):
                lim = 6e-4 if n == "stored_food" else 1e-9 * max(1.0, float(np.abs(want).max())) + 1e-9
                d = np.abs(got - want)
                rd["nutrient_components_compared"] = rd.get("nutrient_components_compared", 0) + 1
                if got.shape != want.shape or d.max() > lim:
                    m = int(d.argmax()) if got.shape == want.shape else 0
                    bad("contribution_differs_from_allocation", "round %d %s %s month %d: reported %.8g%% but the allocation's %s converts to %.8g%%" % (k + 1, n, nm, m, got[m], nm, want[m]),
                        round=k + 1, food=n, month=m, nutrient=nm)
        rd["foods_active"] = nact
        # (f) immediate + new stored = crops eaten
        crops_k = alloc["outdoor_crops"] * fac / 100.0 * KD
        tot = ke["immediate_outdoor_crops"] + ke["new_stored_outdoor_crops"]
        if not _close(tot, crops_k, 1e-9, 1e-9 * max(1.0, float(crops_k.max()))):
            m = int(np.abs(tot - crops_k).argmax())
            bad("crop_split_does_not_add_up", "round %d month %d: immediate %.8g + new stored %.8g != crops eaten %.8g" % (
                k + 1, m, ke["immediate_outdoor_crops"][m], ke["new_stored_outdoor_crops"][m], crops_k[m]), round=k + 1, month=m)
        # (d) headline vs objective (human rounds)
        if lp.kind == "to_humans":
            z = lp.objective
            rd["objective"] = z
            if abs(head - z) > 1e-4 * abs(z) + 1e-5:
                bad("headline_differs_from_optimum", "round %d: headline %.8f vs optimiser optimum %.8f (ratio %.8f)" % (k + 1, head, z, head / z if z else float("nan")),
                    round=k + 1, ratio=(head / z if z else None))
        # (e) CSV round trip
        fn = re.sub(r'[\\/*?:"<>|\n]', "_", lp.title or "") + "_ykcals.csv"
        path = os.path.join(tr.scratch, "results", fn)
        rd["csv"] = os.path.exists(path)
        if not os.path.exists(path):
            bad("csv_missing", "round %d: no table written at results/%s" % (k + 1, fn), round=k + 1)
        else:
            import pandas as pd

            df = pd.read_csv(path, index_col=0, float_precision="round_trip")
            if sorted(df.columns) != sorted(KE) or len(df) != N:
                bad("csv_shape", "round %d: csv columns %s rows %d" % (k + 1, list(df.columns), len(df)), round=k + 1)
            else:
                for n in KE:
                    a, b = df[n].values.astype(float), ke[n]
                    if not np.array_equal(a, b):
                        m = int(np.abs(a - b).argmax())
                        bad("csv_differs_from_returned_series", "round %d column %s month %d: csv %.12g vs returned %.12g" % (k + 1, n, m, a[m], b[m]),
                            round=k + 1, column=n, month=m)
                rd["csv_min_sum"] = float(df.sum(axis=1).min() / KD * 100)
            os.remove(path)
        rounds.append(rd)
    return viol, {"audited": len(rounds), "rounds": rounds}


def run_case(case, tier):
    # a third of the runs carry a free-text title with dots and spaces (a version number, an abbreviation): the saved tables are
    # named after the title, one per round
    if sum(map(ord, case.get("id", ""))) % 3 == 0:
        case = dict(case, title="run v1.5 U.S. style %s" % case["iso"])
    # an eighth of the runs are made the way the report scripts make them (create_pptx_with_all_countries=True, the function's
    # default): the result then also passes through the plotting code before it is returned
    if sum(map(ord, case.get("id", ""))) % 8 == 1:
        case = dict(case, plots=True)
    from vlib import env

    case = dict(case, planted_final_table=True)
    with open(final_table_path(env.scratch_dir(), case.get("title") or ("t_" + case["iso"])), "w") as fh:
        fh.write(STALE)
    r = pipeline.run(case, monitor)
    r["obs"]["plots"] = bool(case.get("plots"))
    return r


def summarize(cases, records, tier):
    cov, ok, audited = pipeline.base_summary(
        cases, records, lambda r: any(x.get("foods_active", 0) >= 3 for x in r["obs"]["rounds"]),
        "one case = one three-round run; evaluations = interpreted rounds compared (headline, per-food series, objective, CSV, crop split); "
        "non-trivial = at least three foods with a non-zero contribution in some round; distinct by (iso, option vector)",
        lambda r: {"iso": r["obs"]["iso"], "tag": r["obs"]["tag"], "rounds": r["obs"]["rounds"]},
        min_audited=max(10, len(cases) // 3))
    cov["csv_files_read_back"] = sum(1 for r in audited for x in r["obs"]["rounds"] if x.get("csv"))
    cov["human_rounds_compared_with_objective"] = sum(1 for r in audited for x in r["obs"]["rounds"] if "objective" in x)
    if cov["csv_files_read_back"] == 0 and "inconclusive_reason" not in cov:
        cov["inconclusive_reason"] = "no CSV was read back"
    return cov
