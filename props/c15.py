"""C15 — aggregate fed fraction is a capped, population-weighted mean of the selection."""
import collections
import contextlib
import copy
import io
import math
import random

import numpy as np

from vlib import workload

ASSUMPTIONS = [
    "selection rule as documented in get_countries_to_run_and_skip: empty list = all countries; all codes prefixed '!' = all others; otherwise exactly the codes without '!'",
    "per-country fractions are observed by a wrapper on ScenarioRunnerNoTrade.run_optimizer_for_country; for selections that run (almost) the whole table the wrapper *replaces* the optimisation by a generated fraction in 0..2.5 (the property is about selection and aggregation), real optimisations are used for short inclusion lists and, in the thorough tier, for one complete table run",
    "population read from the input table; relative tolerance 1e-12 on the sums",
    "sequence cases make 3-5 calls with different selection syntaxes on one ScenarioRunnerNoTrade object; every call is audited against its own list only",
]
WATCHDOG_S = {"quick": 1500, "thorough": 4 * 3600}


def gen_cases(tier, seed):
    rnd = random.Random(1500 + seed)
    isos = workload.all_isos()
    cases = []

    def add(kind, lst, real, opts=None):
        cases.append({"kind": kind, "list": lst, "real": real, "opts": opts or workload.base_country(scenario=rnd.choice(["no_resilient_foods", "all_resilient_foods"])),
                      "gen_seed": rnd.randrange(10 ** 9), "id": "%s#%d" % (kind, len(cases))})

    nreal = 6 if tier == "quick" else 30
    for j in range(nreal):
        add("inclusion", rnd.sample(isos, rnd.choice([1, 2, 3, 4, 6])), True,
            workload.base_country(grasses=rnd.choice(["baseline", "country_nuclear_winter"]), crop_disruption=rnd.choice(["zero", "country_nuclear_winter"]),
                                  fish=rnd.choice(["baseline", "nuclear_winter"])))
        # every other real call also asks for the web-interface files (save_all_results): what is returned must not depend on it
        cases[-1]["save_all"] = j % 2 == 0
    # the generic custom parameter "population" (any column of the country row can be overridden from the scenario): the
    # countries are then simulated with that population, and it is also their weight in the aggregate
    for j in range(4 if tier == "quick" else 20):
        add(["inclusion", "mixed", "exclusion_many"][j % 3], (rnd.sample(isos, rnd.choice([2, 3, 5])) if j % 3 == 0 else
            (lambda a: a[:3] + ["!" + c for c in a[3:]])(rnd.sample(isos, 6)) if j % 3 == 1 else ["!" + c for c in rnd.sample(isos, len(isos) - 3)]), j == 0,
            dict(workload.base_country(), population=rnd.choice([3.0e7, 1234567, 2.5e8])))
    nstub = 24 if tier == "quick" else 200
    for k in range(nstub):
        kind = ["empty", "exclusion", "inclusion", "mixed", "exclusion_many", "inclusion_duplicates"][k % 6]
        if kind == "empty":
            lst = []
        elif kind == "exclusion":
            lst = ["!" + c for c in rnd.sample(isos, rnd.choice([1, 2, 6, 29]))]
        elif kind == "exclusion_many":
            lst = ["!" + c for c in rnd.sample(isos, len(isos) - rnd.choice([1, 2, 5]))]
        elif kind == "inclusion":
            lst = rnd.sample(isos, rnd.choice([1, 5, 40, len(isos)]))
        elif kind == "inclusion_duplicates":
            a = rnd.sample(isos, 4)
            lst = a + a[:2]
        else:
            a = rnd.sample(isos, 8)
            lst = a[:4] + ["!" + c for c in a[4:]]
            rnd.shuffle(lst)
        add(kind, lst, False)
        # every third of these selections is written into a scenario file and run through the yaml entry point instead
        if k % 3 == 1:
            cases[-1]["via_yaml"] = True
            cases[-1]["id"] += "/via_yaml"
    if tier == "thorough":
        add("empty", [], True, workload.base_country())
    # several selections in turn on ONE runner object (as an interactive session or a batch script does): each call's
    # selection is decided by its own list only
    def one(kind):
        if kind == "empty":
            return []
        if kind == "exclusion":
            return ["!" + c for c in rnd.sample(isos, rnd.choice([1, 3, 29]))]
        if kind == "exclusion_many":
            return ["!" + c for c in rnd.sample(isos, len(isos) - rnd.choice([2, 3, 5]))]
        if kind == "inclusion":
            return rnd.sample(isos, rnd.choice([1, 2, 5, 40]))
        a = rnd.sample(isos, 6)
        lst = a[:3] + ["!" + c for c in a[3:]]
        rnd.shuffle(lst)
        return lst

    for k in range(6 if tier == "quick" else 60):
        kinds = [rnd.choice(["empty", "exclusion", "exclusion_many", "inclusion", "mixed"]) for _ in range(rnd.choice([3, 4, 5]))]
        if k % 2 == 0:
            kinds[:3] = rnd.choice([["inclusion", "exclusion_many", "inclusion"], ["exclusion", "inclusion", "empty"], ["mixed", "exclusion_many", "inclusion"]])
        cases.append({"kind": "sequence_on_one_runner", "lists": [one(kk) for kk in kinds], "kinds": kinds, "real": False, "list": [],
                      "opts": workload.base_country(), "gen_seed": rnd.randrange(10 ** 9), "id": "sequence#%d" % k})
    return cases


def expected_selection(lst, isos):
    if not lst:
        return list(isos)
    if all("!" in c for c in lst):
        skip = {c.replace("!", "") for c in lst}
        return [i for i in isos if i not in skip]
    keep = {c for c in lst if "!" not in c}
    return [i for i in isos if i in keep]


def run_case(case, tier):
    from src.scenarios.run_model_no_trade import ScenarioRunnerNoTrade

    if case["kind"] != "sequence_on_one_runner":
        return audit_call(case, ScenarioRunnerNoTrade(), case["list"], case["kind"], random.Random(case["gen_seed"]))
    runner = ScenarioRunnerNoTrade()
    rnd = random.Random(case["gen_seed"])
    viol, steps = [], []
    for k, (lst, kind) in enumerate(zip(case["lists"], case["kinds"])):
        r = audit_call(case, runner, lst, kind, rnd)
        for v in r["viol"]:
            v["mech"] = v["mech"] + "_on_reused_runner" if k else v["mech"]
            v["msg"] = "call %d (%s) on a runner that already served %s: %s" % (k + 1, kind, case["kinds"][:k], v["msg"])
            v["data"]["previous_kinds"] = case["kinds"][:k]
            v["data"]["previous_lists_heads"] = [x[:4] for x in case["lists"][:k]]
        viol += r["viol"]
        steps.append(r["obs"])
    done = [o for o in steps if o.get("audited")]
    obs = {"kind": "sequence_on_one_runner", "real": False, "selected": sum(o["selected"] for o in done), "ran": sum(o["ran"] for o in done),
           "fractions_above_one": sum(o["fractions_above_one"] for o in done), "audited": 1 if len(done) == len(steps) else 0, "net_pop": done[-1]["net_pop"] if done else 0,
           "net_pop_fed": done[-1]["net_pop_fed"] if done else 0, "list_head": case["kinds"], "n_list": len(case["lists"]), "calls_in_sequence": len(done),
           "failed": next((o.get("failed") for o in steps if o.get("failed")), None)}
    return {"viol": viol, "obs": obs}


def audit_call(case, runner, the_list, kind, rnd):
    from src.scenarios.run_model_no_trade import ScenarioRunnerNoTrade

    table = workload.country_table()
    isos = [r["iso3"] for r in table]
    pop = {r["iso3"]: float(r["population"]) for r in table}
    name = {r["iso3"]: r["country"] for r in table}
    log = []
    orig = ScenarioRunnerNoTrade.run_optimizer_for_country

    class _Res:
        percent_people_fed = 0.0

    def wrapper(self, country_data, scenario_option, *a, **k):
        iso = country_data["iso3"]
        if case["real"]:
            r = orig(self, country_data, scenario_option, *a, **k)
            log.append((iso, float(r[0]), float(country_data["population"])))
            return r
        f = rnd.choice([0.0, 0.3, 1.0, 1.0000001, 2.5, rnd.random(), rnd.uniform(0, 2.5)])
        log.append((iso, f, float(country_data["population"])))
        res = _Res()
        res.percent_people_fed = f * 100
        return (f, "stub", res)

    ScenarioRunnerNoTrade.run_optimizer_for_country = wrapper
    opts = copy.deepcopy(case["opts"])
    lst = list(the_list)
    lst0 = list(lst)
    try:
        with contextlib.redirect_stdout(io.StringIO()):
            if case.get("via_yaml"):
                # the same selection written into a scenario file and run through the yaml entry point (what the shell script and
                # the web interface call); the entry point returns nothing, so the model call's own return value is recorded
                from src.scenarios import run_scenarios_from_yaml as ry

                got = []
                orig_run = ScenarioRunnerNoTrade.run_model_no_trade

                def rec(self, *a, **k):
                    r = orig_run(self, *a, **k)
                    got.append(r)
                    return r

                ScenarioRunnerNoTrade.run_model_no_trade = rec
                try:
                    sim = {k: v for k, v in opts.items() if k != "NMONTHS"}
                    sim["title"] = "agg"
                    ry.run_scenarios_from_yaml({"settings": {"NMONTHS": opts.get("NMONTHS", 120), "countries": lst}, "simulations": {"only": sim}}, False, False, False)
                finally:
                    ScenarioRunnerNoTrade.run_model_no_trade = orig_run
                if len(got) != 1:
                    raise RuntimeError("the yaml entry point made %d model calls for one simulation" % len(got))
                out = got[0]
            else:
                out = runner.run_model_no_trade(title="agg", create_pptx_with_all_countries=False, show_country_figures=False, show_map_figures=False,
                                                add_map_slide_to_pptx=False, scenario_option=opts, countries_list=lst, return_results=True,
                                                save_all_results=bool(case.get("save_all")) and bool(case["real"]))
    except BaseException as e:  # noqa: BLE001
        if isinstance(e, KeyboardInterrupt):
            raise
        ScenarioRunnerNoTrade.run_optimizer_for_country = orig
        return {"viol": [], "obs": {"kind": kind, "failed": repr(e)[:150], "audited": 0, "selected": 0}}
    finally:
        ScenarioRunnerNoTrade.run_optimizer_for_country = orig
    world, net_pop, net_pop_fed, results = out
    viol = []

    def bad(mech, msg, **d):
        d.update(kind=kind, list_head=lst0[:6], n_list=len(lst0))
        viol.append({"mech": mech, "msg": msg, "data": d})

    want = expected_selection(lst0, isos)
    ran = [x[0] for x in log]
    if lst != lst0:
        bad("selection_list_modified", "the caller's country list was modified")
    if sorted(ran) != sorted(want):
        extra = sorted(set(ran) - set(want))[:5]
        missing = sorted(set(want) - set(ran))[:5]
        dup = [k for k, v in collections.Counter(ran).items() if v > 1][:5]
        bad("wrong_countries_run", "selection %s (%d codes): ran %d countries, expected %d; unexpected %s missing %s run twice %s" % (lst0[:4], len(lst0), len(ran), len(want), extra, missing, dup),
            extra=extra, missing=missing, duplicated=dup)
    exp_pop = sum(p for _, f, p in log if not math.isnan(f))
    exp_fed = sum(p * min(1.0, f) for _, f, p in log if not math.isnan(f))
    table_pop = sum(pop[i] for i in want) if "population" not in case["opts"] else float(case["opts"]["population"]) * len(want)
    if abs(net_pop - exp_pop) > 1e-12 * max(1.0, exp_pop) or abs(exp_pop - table_pop) > 1e-9 * max(1.0, table_pop):
        bad("aggregate_population_wrong", "net population %.6f, sum over the selected countries %.6f (table %.6f)" % (net_pop, exp_pop, table_pop))
    if abs(net_pop_fed - exp_fed) > 1e-12 * max(1.0, exp_fed):
        capped = sum(p * f for _, f, p in log)
        mech = "aggregate_not_capped_at_one" if abs(net_pop_fed - capped) <= 1e-12 * max(1.0, capped) and capped > exp_fed else "aggregate_fed_population_wrong"
        bad(mech, "population fed %.6f, expected sum of population x min(1, fraction) = %.6f" % (net_pop_fed, exp_fed))
    if net_pop > 0:
        ratio = net_pop_fed / net_pop
        if not (0 <= ratio <= 1 + 1e-12):
            bad("aggregate_ratio_out_of_range", "aggregate fraction fed %.6f outside [0, 1]" % ratio)
    names = sorted(name[i] for i in want)
    if sorted(results) != names and not case.get("via_yaml"):  # (the plain yaml mode does not ask for the per-country results)
        bad("results_do_not_match_selection", "returned results hold %d countries, selection has %d (e.g. missing %s)" % (len(results), len(names), sorted(set(names) - set(results))[:3]))
    over = sum(1 for _, f, _ in log if f > 1)
    return {"viol": viol, "obs": {"kind": kind, "real": case["real"], "via_yaml": bool(case.get("via_yaml")), "selected": len(want), "ran": len(ran), "fractions_above_one": over, "audited": 1,
                                   "net_pop": net_pop, "net_pop_fed": net_pop_fed, "list_head": lst0[:5], "n_list": len(lst0)}}


def summarize(cases, records, tier):
    ok = [r for r in records if r.get("status") == "ok" and r["obs"].get("audited")]
    kinds = collections.Counter((r["obs"]["kind"], "real" if r["obs"]["real"] else "stub") for r in ok)
    cov = {
        "evaluations": len(ok),
        "distinct_nontrivial": len({(r["obs"]["kind"], r["obs"]["n_list"], tuple(r["obs"]["list_head"])) for r in ok if r["obs"]["selected"] >= 1}),
        "rule": "one case = one call of run_model_no_trade with a generated selection list; non-trivial = at least one country selected; distinct by (selection kind, list)",
        "samples": [{k: r["obs"][k] for k in ("kind", "real", "list_head", "n_list", "selected", "ran", "fractions_above_one", "net_pop", "net_pop_fed")} for r in ok[:8]] or [{"note": "none"}],
        "calls_by_kind": {"%s/%s" % k: v for k, v in kinds.items()},
        "countries_aggregated_in_total": int(sum(r["obs"]["ran"] for r in ok)),
        "calls_with_a_fraction_above_one": sum(1 for r in ok if r["obs"]["fractions_above_one"] > 0),
        "failed_calls": [r["obs"].get("failed") for r in records if r.get("status") == "ok" and r["obs"].get("failed")][:5],
        "selections_run_through_the_yaml_entry_point": sum(1 for r in records if r.get("status") == "ok" and r["obs"].get("via_yaml") and r["obs"].get("audited")),
        "real_calls_with_save_all_results": sum(1 for c, r in zip(cases, records) if c.get("save_all") and r.get("status") == "ok" and r["obs"].get("audited")),
        "calls_with_a_population_override": sum(1 for c, r in zip(cases, records) if "population" in c.get("opts", {}) and r.get("status") == "ok" and r["obs"].get("audited")),
        "sequences_on_one_runner": sum(1 for r in ok if r["obs"]["kind"] == "sequence_on_one_runner"),
        "calls_on_a_reused_runner": int(sum(r["obs"].get("calls_in_sequence", 1) - 1 for r in ok if r["obs"]["kind"] == "sequence_on_one_runner")),
    }
    if cov["calls_on_a_reused_runner"] == 0:
        cov["inconclusive_reason"] = "no call on a reused runner object"
    if cov["calls_with_a_fraction_above_one"] == 0:
        cov["inconclusive_reason"] = "the cap at 1 was never exercised"
    if not any(r["obs"]["real"] for r in ok):
        cov["inconclusive_reason"] = "no call with real optimisations completed"
    if len(ok) < 0.8 * len(cases):
        cov["inconclusive_reason"] = "only %d of %d calls completed" % (len(ok), len(cases))
    return cov
