"""C11 — a food quantity's unit labels always describe its numbers.

A seeded stateful generator drives sequences of operations over a pool of scalar
and monthly Food quantities; after every operation the result is compared with a
reference label algebra, the label list must agree with the three labels, the
label class must match the value shape, and every operand must be unchanged."""
import collections
import copy
import random

import numpy as np

NEEDS_MODEL = False
ASSUMPTIONS = [
    "reference label algebra: + - neg abs round clip shift running-sum slice keep the labels; x*number and x/number keep them; scalar*ndarray appends ' each month'; x/y (same labels) gives 'ratio' (+' each month' for series); "
    "ratio*x and x*ratio carry x's labels (when x is itself a ratio either operand's labels are accepted); a 'per month' value times an ndarray is an 'each month' series; sum/min/max over months drop ' each month'; one month of an 'each month' series (get_month, get_first_month, x[i]) is 'per month'; in_units gives the target labels with the operand's suffix class",
    "in_units results are also checked by value against an independent multiplier table for the requirements in force; the requirements are re-set in the middle of sequences (probability 0.04 per step)",
    "a monthly quantity is an ndarray and all three labels end in ' each month'; a scalar quantity has no ' each month' label",
    "operations on quantities with different labels must raise AssertionError",
    "each comparison predicate on scalars (a, b) must equal the same predicate on the one-month series ([a], [b]) under all four settings of the fat/protein inclusion flags",
]
BASES = [("billion kcals", "thousand tons", "thousand tons"), ("percent people fed",) * 3, ("ratio",) * 3,
         ("kcals per person per day", "grams per person per day", "grams per person per day"), ("widgets", "gadgets", "gizmos")]
CONVERTIBLE = BASES[:2] + BASES[3:4]
# targets for conversions: also triples whose fat and protein units differ
K_UNITS = ["billion kcals", "percent people fed", "kcals per person per day", "billion people fed", "million dry caloric tons"]
G_UNITS = ["thousand tons", "percent people fed", "grams per person per day", "million tons", "billion people fed", "effective kcals per person per day"]


def pick_target(r):
    if r.random() < 0.5:
        return r.choice(CONVERTIBLE)
    return (r.choice(K_UNITS), r.choice(G_UNITS), r.choice(G_UNITS))
PREDICATES2 = ["all_greater_than", "all_less_than", "any_greater_than", "any_less_than", "all_greater_than_or_equal_to",
               "all_less_than_or_equal_to", "any_greater_than_or_equal_to", "any_less_than_or_equal_to"]
PREDICATES1 = ["all_equals_zero", "any_equals_zero", "all_greater_than_zero", "any_greater_than_zero", "all_greater_than_or_equal_to_zero", "is_never_negative"]


def gen_cases(tier, seed):
    n = 48 if tier == "quick" else 4000
    cases = [{"kind": "sequence", "gen_seed": seed * 65537 + k, "steps": 120 if tier == "quick" else (300 if k % 4 else 1200), "id": "seq#%d" % k} for k in range(n)]
    cases += [{"kind": "predicates", "gen_seed": seed * 257 + k, "examples": 60 if tier == "quick" else 200, "id": "pred#%d" % k} for k in range(8 if tier == "quick" else 160)]
    return cases


def labels(x):
    return [x.kcals_units, x.fat_units, x.protein_units]


def snap(x):
    return (copy.deepcopy(x.kcals), copy.deepcopy(x.fat), copy.deepcopy(x.protein), labels(x), list(x.units))


def same(x, s):
    def eq(a, b):
        return np.array_equal(np.asarray(a, float), np.asarray(b, float)) and (isinstance(a, np.ndarray) == isinstance(b, np.ndarray))

    return eq(x.kcals, s[0]) and eq(x.fat, s[1]) and eq(x.protein, s[2]) and labels(x) == s[3] and list(x.units) == s[4]


def is_series(x):
    return isinstance(x.kcals, np.ndarray)


def strip(lab, suffix=" each month"):
    return [u.replace(suffix, "") for u in lab]


class Seq:
    def __init__(self, case):
        from src.food_system.food import Food

        self.Food = Food
        self.rnd = random.Random(case["gen_seed"])
        self.viol = []
        self.seen = collections.Counter()
        self.ops = collections.Counter()
        self.refused = collections.Counter()
        self.trace = []
        self.case = case

    def bad(self, mech, msg, **d):
        self.seen[mech] += 1
        if self.seen[mech] <= 2:
            d["trace_tail"] = self.trace[-6:]
            d["gen_seed"] = self.case["gen_seed"]
            self.viol.append({"mech": mech, "msg": msg, "data": d})

    def new(self, series=None, base=None, n=None):
        r = self.rnd
        series = r.random() < 0.5 if series is None else series
        base = r.choice(BASES) if base is None else base
        if series:
            n = n or r.choice([1, 2, 3, 12])
            vals = [np.array([r.choice([0.0, 1.0, -2.5, r.uniform(-5, 50)]) for _ in range(n)]) for _ in range(3)]
            lab = [b + r.choice([" each month", " each month", ""]) for b in base]
        else:
            vals = [r.choice([0.0, 1.0, -2.5, r.uniform(-5, 50)]) for _ in range(3)]
            kind = r.random()
            if kind < 0.12:
                vals = [int(round(v)) for v in vals]  # plain ints
            elif kind < 0.24:
                vals = [np.float64(v) for v in vals]  # numpy scalars (what indexing an array yields)
            elif kind < 0.3:
                vals = [np.int64(round(v)) for v in vals]
            lab = list(base)
            if r.random() < 0.3:
                lab = [b + " per month" for b in base]
        f = self.Food(vals[0], vals[1], vals[2], lab[0], lab[1], lab[2])
        form = r.random()
        if form < 0.15:
            # the documented short forms of the constructor: nutrients left out default to zero, in the shape of the calories
            lists = series and r.random() < 0.5
            kc = list(vals[0]) if lists else vals[0]
            which = r.choice(["kcals_only", "kcals_fat", "kcals_only_units", "keywords"])
            if which == "kcals_only":
                f = self.Food(kc)
                want = ["billion kcals", "thousand tons", "thousand tons"]
            elif which == "kcals_fat":
                f = self.Food(kcals=kc, fat=list(vals[1]) if lists else vals[1])
                want = ["billion kcals", "thousand tons", "thousand tons"]
            elif which == "kcals_only_units":
                f = self.Food(kcals=kc, kcals_units=lab[0])
                want = [strip(strip([lab[0]]), " per month")[0] if False else lab[0].replace(" each month", ""), "thousand tons", "thousand tons"]
            else:
                f = self.Food(protein=vals[2], kcals=kc, fat=vals[1], protein_units=lab[2], kcals_units=lab[0], fat_units=lab[1])
                want = [x.replace(" each month", "") for x in lab]
            if series:
                want = [w + " each month" for w in want]
            self.ops["new_short_form:" + which] += 1
            self.ops["new_short_form"] += 1
            self.check_result("new_short_form(%s%s)" % (which, ",lists" if lists else ""), f, want, series, [], [])
            if is_series(f) and not (len(f.fat) == len(f.kcals) == len(f.protein)):
                self.bad("result_shape_wrong", "short-form construction %s: nutrient series of different lengths" % which, op="new_short_form")
            return f
        if series and r.random() < 0.3:
            # construction takes the numbers, not the caller's storage: an in-place write to the quantity stays in it
            keep = [v.copy() for v in vals]
            f.set_to_zero_after_month(r.randrange(n))
            self.ops["write_to_result:constructed"] += 1
            if not all(np.array_equal(v, k) for v, k in zip(vals, keep)):
                self.bad("write_to_result_changes_operand", "construction: set_to_zero_after_month on the new quantity changed the caller's array", op="new", how="constructed")
            f = self.Food(vals[0], vals[1], vals[2], lab[0], lab[1], lab[2])
        return f

    def check_result(self, op, res, want_labels, want_series, operands, snaps, detail=""):
        """res: Food result; want_labels: expected three labels or None to skip"""
        where = "%s %s" % (op, detail)
        if not isinstance(res, self.Food):
            self.bad("result_not_a_quantity", "%s returned %s" % (where, type(res).__name__), op=op)
            return
        lab = labels(res)
        if list(res.units) != lab:
            mech = "label_list_stale"
            self.bad(mech, "%s: labels %s but label list %s" % (where, lab, list(res.units)), op=op)
        if want_series is not None and is_series(res) != want_series:
            self.bad("result_shape_wrong", "%s: expected %s, got %s" % (where, "series" if want_series else "scalar", type(res.kcals).__name__), op=op)
        each = [" each month" in u for u in lab]
        if is_series(res) and not all(each):
            self.bad("series_without_each_month_label", "%s: series labelled %s" % (where, lab), op=op)
        if (not is_series(res)) and any(each):
            mech = "scalar_labelled_each_month"
            self.bad(mech, "%s: single value labelled %s" % (where, lab), op=op)
        if want_labels is not None and lab != list(want_labels):
            mech = "result_labels_wrong"
            if op in ("mul_food", "rmul_food") and strip(lab) == ["ratio"] * 3 and strip(list(want_labels)) != ["ratio"] * 3:
                mech = "ratio_times_quantity_labelled_ratio"
            self.bad(mech, "%s: labels %s, expected %s" % (where, lab, list(want_labels)), op=op)
        for o, s in zip(operands, snaps):
            if not same(o, s):
                self.bad("operand_modified", "%s modified an operand (%s -> %s)" % (where, s[3], labels(o)), op=op)

    def check_converted_values(self, op, x, y, frm, tgt):
        """the numbers of a converted quantity are the numbers its new labels describe, under the requirements in force now"""
        from props.c10 import ref_mult

        z = self.set
        refs = ref_mult(z["kd"], z["fd"], z["pd"], z["pop"])
        for nm, ref, f, t in zip(("kcals", "fat", "protein"), refs, frm, tgt):
            if f not in ref or t not in ref:
                return
            want = np.asarray(getattr(x, nm), float) * ref[t] / ref[f]
            got = np.asarray(getattr(y, nm), float)
            self.ops["converted_values_checked"] += 1
            if want.shape != got.shape or not np.all(np.abs(got - want) <= 1e-11 * np.maximum(np.abs(want), np.abs(got)) + 1e-300):
                self.bad("converted_numbers_do_not_match_labels", "%s %s: %s %s -> %s gives %s, the requirements in force (kcals %.6g fat %.6g protein %.6g population %.6g) give %s" % (
                    op, nm, np.ravel(getattr(x, nm))[:2], f, t, np.ravel(got)[:2], z["kd"], z["fd"], z["pd"], z["pop"], np.ravel(want)[:2]), op="in_units", nutrient=nm, settings=dict(z))

    def run(self, steps):
        r = self.rnd
        Food = self.Food
        from src.food_system.food import Food as F  # noqa: F401

        self.set = {"kd": r.choice([2100.0, 2345.0]), "fd": 47.0, "pd": 51.0, "incf": r.random() < 0.5, "incp": r.random() < 0.5, "pop": r.choice([1e6, 3.3e7, 7.8e9])}

        def apply():
            z = self.set
            Food.conversions.set_nutrition_requirements(z["kd"], z["fd"], z["pd"], z["incf"], z["incp"], z["pop"])

        apply()
        pool = [self.new() for _ in range(6)]
        for step in range(steps):
            if r.random() < 0.04:
                # the process-wide requirements are re-set in the middle of the sequence (a batch moves on to its next country)
                for k in r.sample(["kd", "fd", "pd", "pop", "incf", "incp"], r.choice([1, 1, 2])):
                    self.set[k] = {"kd": lambda: r.choice([2100.0, 2345.0, 1800.0]), "fd": lambda: r.choice([47.0, 61.7, r.uniform(20, 90)]), "pd": lambda: r.choice([51.0, 59.5, r.uniform(20, 90)]),
                                   "pop": lambda: r.choice([1e6, 3.3e7, 7.8e9, r.uniform(1e5, 1e9)]), "incf": lambda: r.random() < 0.5, "incp": lambda: r.random() < 0.5}[k]()
                apply()
                self.ops["resetting"] += 1
                self.trace.append("resetting")
            op = r.choice(["add", "sub", "mul_num", "mul_arr", "mul_food", "div_num", "div_food", "neg", "getitem_int", "getitem_slice", "get_month", "get_first_month",
                           "sum", "running", "min_all", "max_all", "min_elementwise", "round", "clip", "abs", "shift", "in_units", "mismatch", "new"])
            a = r.choice(pool)
            self.ops[op] += 1
            sa = snap(a)
            self.trace.append("%s(%s%s)" % (op, "S" if is_series(a) else "s", labels(a)[0][:18]))
            res = None
            try:
                if op == "new":
                    res = self.new()
                    self.check_result(op, res, None, None, [], [])
                elif op in ("add", "sub", "min_elementwise", "div_food"):
                    # a partner with the same labels and shape
                    if is_series(a):
                        b = Food(np.array([r.uniform(-3, 9) for _ in a.kcals]), np.array([r.uniform(0.1, 9) for _ in a.kcals]), np.array([r.uniform(0.1, 9) for _ in a.kcals]), *labels(a))
                    else:
                        b = Food(r.uniform(0.1, 9), r.uniform(0.1, 9), r.uniform(0.1, 9), *labels(a))
                    if op == "div_food" and is_series(a):
                        b = Food(np.abs(b.kcals) + 0.1, b.fat, b.protein, *labels(a))
                    sb = snap(b)
                    if op == "add":
                        res = a + b
                        want = labels(a)
                    elif op == "sub":
                        res = a - b
                        want = labels(a)
                    elif op == "min_elementwise":
                        res = Food.min_elementwise(a, b)
                        want = labels(a)
                    else:
                        res = a / b
                        want = ["ratio each month"] * 3 if is_series(a) else ["ratio"] * 3
                    self.check_result(op, res, want, is_series(a), [a, b], [sa, sb])
                elif op == "mismatch":
                    other = [u + "X" for u in strip(labels(a))]
                    if is_series(a):
                        b = Food(np.ones(len(a.kcals)), np.ones(len(a.kcals)), np.ones(len(a.kcals)), *[u + " each month" for u in other])
                    else:
                        b = Food(1.0, 1.0, 1.0, *other)
                    which = r.choice(["add", "sub", "truediv", "eq", "ne", "all_greater_than", "any_less_than", "min_elementwise", "all_greater_than_or_equal_to"])
                    try:
                        if which == "add":
                            a + b
                        elif which == "sub":
                            a - b
                        elif which == "truediv":
                            a / b
                        elif which == "eq":
                            a == b
                        elif which == "ne":
                            a != b
                        elif which == "min_elementwise":
                            Food.min_elementwise(a, b)
                        else:
                            getattr(a, which)(b)
                        self.bad("different_units_combined", "%s accepted operands labelled %s and %s" % (which, labels(a), labels(b)), op=which)
                    except AssertionError:
                        self.refused[which] += 1
                    continue
                elif op == "mul_num":
                    k = r.choice([0, 1, 2.5, -1, r.uniform(-3, 3)])
                    if r.random() < 0.35:
                        # a number taken out of an array or a table column is a numpy scalar of that column's type
                        # (values exactly representable in every one of these types)
                        k = r.choice([np.int64, np.int32, np.float32, np.float64, np.int16, np.uint8])(r.choice([0, 1, 2, 3]))
                        self.numpy_multipliers = getattr(self, "numpy_multipliers", 0) + 1
                        res = a * k
                    else:
                        res = a * k if r.random() < 0.5 else k * a
                    self.check_result(op, res, labels(a), is_series(a), [a], [sa])
                elif op == "div_num":
                    k = r.choice([1, 2.5, -1, r.uniform(0.1, 3)])
                    res = a / k
                    self.check_result(op, res, labels(a), is_series(a), [a], [sa])
                elif op == "mul_arr":
                    if is_series(a):
                        arr = np.array([r.uniform(0, 2) for _ in a.kcals])
                        res = a * arr
                        self.check_result(op, res, labels(a), True, [a], [sa])
                    else:
                        arr = np.array([r.uniform(0, 2) for _ in range(r.choice([1, 3, 12]))])
                        arr0 = arr.copy()
                        res = a * arr
                        self.check_result(op, res, [u.replace(" per month", "") + " each month" for u in labels(a)], True, [a], [sa])
                        if not np.array_equal(arr, arr0):
                            self.bad("operand_modified", "scalar*ndarray modified the array", op=op)
                elif op == "mul_food":
                    # one ratio operand, on either side
                    if is_series(a):
                        ratio = Food(np.array([r.uniform(0, 2) for _ in a.kcals]), np.ones(len(a.kcals)), np.ones(len(a.kcals)), "ratio each month", "ratio each month", "ratio each month")
                        if r.random() < 0.4:
                            ratio = Food(r.uniform(0, 2), 1.0, 1.0, "ratio", "ratio", "ratio")
                    else:
                        ratio = Food(r.uniform(0, 2), 1.0, 1.0, "ratio", "ratio", "ratio")
                    sr = snap(ratio)
                    side = r.choice(["x*ratio", "ratio*x"])
                    want = labels(a)
                    got_l = got_r = None
                    try:
                        got_l = a * ratio
                    except AssertionError:
                        pass
                    try:
                        got_r = ratio * a
                    except AssertionError:
                        pass
                    if (got_l is None) != (got_r is None):
                        self.bad("ratio_product_depends_on_side", "x*ratio %s but ratio*x %s (x labelled %s, %s; ratio %s)" % (
                            "works" if got_l is not None else "refused", "works" if got_r is not None else "refused", labels(a), "series" if is_series(a) else "scalar",
                            "series" if is_series(ratio) else "scalar"), op=op)
                    both_ratio = all("ratio" in u for u in labels(a))
                    for nm, got, detail in (("mul_food", got_l, "x*ratio"), ("rmul_food", got_r, "ratio*x")):
                        if got is None:
                            continue
                        w = want
                        if both_ratio and labels(got) in (labels(a), labels(ratio)):
                            w = labels(got)  # both operands are dimensionless: either operand's labels describe the product
                        self.check_result(nm, got, w, is_series(a) or is_series(ratio), [a, ratio], [sa, sr], detail)
                    res = got_l if side == "x*ratio" else got_r
                elif op == "neg":
                    res = -a
                    self.check_result(op, res, labels(a), is_series(a), [a], [sa])
                elif op == "abs":
                    res = a.get_abs_values()
                    self.check_result(op, res, labels(a), is_series(a), [a], [sa])
                elif op == "clip":
                    res = a.negative_values_to_zero()
                    self.check_result(op, res, labels(a), is_series(a), [a], [sa])
                elif not is_series(a):
                    # the remaining operations need a series
                    self.ops[op] -= 1
                    continue
                elif op == "getitem_int":
                    i = r.randrange(len(a.kcals))
                    # the index as a python int or as the numpy integer an arange / argmax hands out
                    i = r.choice([i, i, np.int64(i), np.int32(i), np.intp(i)])
                    res = a[i]
                    self.check_result(op, res, [u.replace(" each month", " per month") for u in labels(a)], False, [a], [sa], "[%d]" % i)
                elif op == "getitem_slice":
                    i = r.randrange(len(a.kcals))
                    res = a[i:]
                    if len(res.kcals) == 0:
                        continue
                    self.check_result(op, res, labels(a), True, [a], [sa], "[%d:]" % i)
                elif op in ("get_month", "get_first_month"):
                    j = r.randrange(len(a.kcals))
                    res = a.get_month(r.choice([j, np.int64(j)])) if op == "get_month" else a.get_first_month()
                    self.check_result(op, res, [u.replace(" each month", " per month") for u in labels(a)], False, [a], [sa])
                elif op in ("sum", "min_all", "max_all"):
                    res = {"sum": a.get_nutrients_sum, "min_all": a.get_min_all_months, "max_all": a.get_max_all_months}[op]()
                    self.check_result(op, res, strip(labels(a)), False, [a], [sa])
                elif op == "running":
                    res = a.get_running_total_nutrients_sum()
                    self.check_result(op, res, labels(a), True, [a], [sa])
                    if not np.allclose(res.kcals, np.cumsum(sa[0])):
                        self.bad("running_sum_wrong", "running sum values wrong", op=op)
                elif op == "round":
                    res = a.get_rounded_to_decimal(r.choice([0, 1, 3]))
                    self.check_result(op, res, labels(a), True, [a], [sa])
                elif op == "shift":
                    k = r.randrange(0, len(a.kcals) + 1)
                    res = a.shift(k)
                    self.check_result(op, res, labels(a), True, [a], [sa], "(%d)" % k)
                elif op == "in_units":
                    st = strip(labels(a))
                    if tuple(st) not in CONVERTIBLE:
                        self.ops[op] -= 1
                        continue
                    tgt = pick_target(r)
                    res = a.in_units(*tgt)
                    self.check_result(op, res, [t + " each month" for t in tgt], True, [a], [sa], "-> %s" % (tgt[0],))
                    self.check_converted_values(op, a, res, st, tgt)
            except AssertionError as err:
                self.refused[op] += 1
                if op in ("add", "sub", "neg", "mul_num", "div_num", "sum", "min_all", "max_all", "running", "get_month", "get_first_month", "round", "clip", "abs", "shift", "getitem_slice", "getitem_int"):
                    self.bad("valid_operation_refused", "%s on %s refused: %s" % (op, labels(a), str(err)[:60]), op=op)
                continue
            if isinstance(res, Food) and is_series(res) and len(res.kcals) and res is not a and r.random() < 0.5:
                # a later in-place write to the result (the class's own in-place API) must not reach the operand
                sa2 = snap(a)
                how = r.choice(["set_to_zero_after_month", "setitem", "array_write"])
                i = r.randrange(len(res.kcals))
                try:
                    if how == "set_to_zero_after_month":
                        res.set_to_zero_after_month(i)
                    elif how == "setitem":
                        res[i] = Food(7.25, 7.5, 7.75, *[u.replace(" each month", " per month") for u in labels(res)])
                    else:
                        res.kcals[i] = res.kcals[i] + 3.5
                        res.fat[i] = res.fat[i] + 3.5
                        res.protein[i] = res.protein[i] + 3.5
                    self.ops["write_to_result:" + how] += 1
                    if not same(a, sa2):
                        self.bad("write_to_result_changes_operand", "%s: writing into the result (%s at month %d) changed the operand: kcals %s -> %s" % (
                            op, how, i, np.ravel(sa2[0])[:6], np.ravel(a.kcals)[:6]), op=op, how=how)
                except (AssertionError, ValueError):
                    pass
            if isinstance(res, Food) and r.random() < 0.6:
                # follow-up use of a derived quantity: conversions read the label list
                if tuple(strip(strip(labels(res)), " per month")) in CONVERTIBLE:
                    sr = snap(res)
                    try:
                        tgt = pick_target(r)
                        conv = res.in_units(*tgt)
                        suffix = " each month" if " each month" in labels(res)[0] else (" per month" if " per month" in labels(res)[0] else "")
                        self.ops["in_units_of_derived"] += 1
                        self.check_result("in_units_of_derived(%s)" % op, conv, [t + suffix for t in tgt], is_series(res), [res], [sr])
                        self.check_converted_values("in_units_of_derived(%s)" % op, res, conv, strip(strip(labels(res)), " per month"), tgt)
                    except AssertionError as err:
                        self.bad("valid_operation_refused", "in_units on the result of %s (labels %s, list %s) refused: %s" % (op, labels(res), list(res.units), str(err)[:60]), op="in_units_of_derived")
                pool[r.randrange(len(pool))] = res


def predicates(case):
    from src.food_system.food import Food

    rnd = random.Random(case["gen_seed"])
    viol, seen = [], collections.Counter()
    n = nan_examples = 0

    def outcome(f, *a, **k):
        try:
            return bool(f(*a, **k))
        except (AssertionError, ValueError, TypeError) as err:
            return "raises " + type(err).__name__

    for e in range(case["examples"]):
        for inc_f in (False, True):
            for inc_p in (False, True):
                Food.conversions.set_nutrition_requirements(2100.0, 47.0, 51.0, inc_f, inc_p, 1e6)
                # plain values, ties, and values at the edge of the predicates' own tolerances (rounding to N decimals, thresholds)
                pool = [0.0, 1.0, 2.0, -1.0, 0.0, 1.0, 4e-10, 5e-10, 7e-10, -7e-10, 1.2e-9, 4e-7, 7e-7, -4e-4, 7e-4, -0.5, 0.5, rnd.uniform(-3, 3), rnd.choice([1, -1]) * 10 ** rnd.uniform(-12, 2)]
                v = [rnd.choice(pool) for _ in range(6)]
                if rnd.random() < 0.3:
                    v[3:] = v[:3]
                if rnd.random() < 0.15:
                    # a quantity the class produces itself: supplied / demanded in a month with neither is 0/0
                    v[rnd.randrange(6)] = float("nan")
                    nan_examples += 1
                a, b = Food(v[0], v[1], v[2]), Food(v[3], v[4], v[5])
                A = Food(np.array([v[0]]), np.array([v[1]]), np.array([v[2]]))
                B = Food(np.array([v[3]]), np.array([v[4]]), np.array([v[5]]))
                for p in PREDICATES2:
                    n += 1
                    s, m = outcome(getattr(a, p), b), outcome(getattr(A, p), B)
                    if s != m:
                        seen[p] += 1
                        if seen[p] <= 1:
                            viol.append({"mech": "predicate_scalar_vs_one_month_series_disagree:" + p,
                                         "msg": "%s: scalar (%s vs %s) -> %s, one-month series -> %s with include_fat=%s include_protein=%s" % (p, v[:3], v[3:], s, m, inc_f, inc_p),
                                         "data": {"predicate": p, "a": v[:3], "b": v[3:], "include_fat": inc_f, "include_protein": inc_p}})
                for p in PREDICATES1:
                    n += 1
                    s, m = outcome(getattr(a, p)), outcome(getattr(A, p))
                    if s != m:
                        seen[p] += 1
                        if seen[p] <= 1:
                            viol.append({"mech": "predicate_scalar_vs_one_month_series_disagree:" + p,
                                         "msg": "%s: scalar %s -> %s, one-month series -> %s with include_fat=%s include_protein=%s" % (p, v[:3], s, m, inc_f, inc_p),
                                         "data": {"predicate": p, "a": v[:3], "include_fat": inc_f, "include_protein": inc_p}})
                # the predicates that take a tolerance, with non-default values of it
                for p, kw in (("all_equals_zero", {"rounding_decimals": rnd.choice([9, 6, 3, 0])}), ("all_greater_than_or_equal_to_zero", {"threshold": rnd.choice([0, 1e-9, 1e-3, 1.0])})):
                    n += 1
                    s_, m_ = outcome(getattr(a, p), **kw), outcome(getattr(A, p), **kw)
                    if s_ != m_:
                        seen[p + "(arg)"] += 1
                        if seen[p + "(arg)"] <= 1:
                            viol.append({"mech": "predicate_scalar_vs_one_month_series_disagree:" + p,
                                         "msg": "%s(%s): scalar %s -> %s, one-month series -> %s with include_fat=%s include_protein=%s" % (p, kw, v[:3], s_, m_, inc_f, inc_p),
                                         "data": {"predicate": p, "a": v[:3], "kwargs": kw, "include_fat": inc_f, "include_protein": inc_p}})
    return {"viol": viol, "obs": {"predicates": True, "comparisons": n, "examples_with_a_nan": nan_examples, "viol_counts": dict(seen)}}


def run_case(case, tier):
    from vlib import env

    env.boot(model=False)
    from src.food_system.food import Food

    saved = dict(Food.conversions.__dict__)
    try:
        if case["kind"] == "predicates":
            return predicates(case)
        s = Seq(case)
        s.run(case["steps"])
        return {"viol": s.viol, "obs": {"sequence": True, "ops": dict(s.ops), "refused": dict(s.refused), "trace_head": s.trace[:12], "viol_counts": dict(s.seen)}}
    finally:
        Food.conversions.__dict__.clear()
        Food.conversions.__dict__.update(saved)


def summarize(cases, records, tier):
    ok = [r for r in records if r.get("status") == "ok"]
    ops = collections.Counter()
    ref = collections.Counter()
    for r in ok:
        ops.update(r["obs"].get("ops", {}))
        ref.update(r["obs"].get("refused", {}))
    comps = sum(r["obs"].get("comparisons", 0) for r in ok)
    seqs = [r for r in ok if r["obs"].get("sequence")]
    cov = {
        "evaluations": int(sum(ops.values()) + comps),
        "distinct_nontrivial": len(seqs) + len([k for k, v in ops.items() if v > 0]),
        "rule": "sequence cases: seeded operation sequences over a pool of scalar/monthly quantities (each sequence distinct by seed; non-trivial = every sequence, they all mix derived and fresh quantities) + number of distinct operation kinds exercised; "
                "after half of the series results an in-place write (set_to_zero_after_month, item assignment, array write) is made into the result and the operand re-compared; "
                "predicate cases: scalar vs one-month-series agreement of 14 predicates under the 4 inclusion-flag settings; evaluations = operations checked + predicate comparisons",
        "samples": [{"trace_head": r["obs"]["trace_head"]} for r in seqs[:3]] or [{"note": "none"}],
        "operations_by_kind": dict(ops), "refusals_by_kind": dict(ref), "predicate_comparisons": int(comps), "sequences": len(seqs),
    }
    for need in ("add", "mul_food", "get_month", "in_units", "in_units_of_derived", "mismatch", "getitem_int", "getitem_slice", "sum", "resetting", "new_short_form", "converted_values_checked", "write_to_result:set_to_zero_after_month", "write_to_result:setitem", "write_to_result:constructed"):
        if ops.get(need, 0) == 0:
            cov["inconclusive_reason"] = "operation never exercised: " + need
    if comps == 0:
        cov["inconclusive_reason"] = "no predicate comparison"
    return cov
