"""C05 — meat and milk offered to the optimiser match the simulated herds and feed."""
import collections

import numpy as np

from props import pipeline
from vlib import workload

ASSUMPTIONS = [
    "per-head yields (kg per pig / chicken, milk per animal) and the meat/milk waste shares are read from the country's row of the input table and from the submitted options, not from the constants the model derives from them (country scale)",
    "independent per-head yield table: chicken KG_MEAT_PER_CHICKEN*1525, pig KG_MEAT_PER_PIG*3590, other small 2.36 kg*1525, other medium 24.6 kg*3590, large 269.7 kg (or the kg_meat_per_large_animal override)*2750 kcal, reduced by distribution waste for meat",
    "milk = milking-herd head count * annual yield/12 * 610 kcal/kg * (1-distribution waste)(1-retail waste), zero when milk is switched off",
    "herd objects are paired with rounds by construction order (round 1, round 2, round 3; round 3 reuses the round-1 herds when round 2 was skipped)",
]
KG = {"small": 2.36, "medium": 24.6, "large": 269.7}
KC = {"small": 1525.0, "medium": 3590.0, "large": 2750.0}


def gen_cases(tier, seed):
    return workload.pipeline_grid(tier, seed)


_ROWS = {}


def independent_inputs(case, inp):
    """Per-head yields and waste shares taken from the country's row of the input table and from the submitted options
    (country scale); at global scale the repository's own constants are the only source."""
    out = dict(inp)
    iso, opts = case["iso"], case["opts"]
    if iso == "WOR":
        return out
    if not _ROWS:
        for r in workload.country_table():
            _ROWS[r["iso3"]] = r
    row = _ROWS[iso]
    out["KG_MEAT_PER_CHICKEN"] = float(row["kg_meat_per_chicken"])
    out["KG_MEAT_PER_PIG"] = float(row["kg_meat_per_pig"])
    out["MILK_YIELD_KG_PER_MILK_BEARING_ANIMAL_PER_YEAR"] = float(row["milk_yield_kg_per_milk_bearing_animal_per_year"])
    for k in ("kg_meat_per_chicken", "kg_meat_per_pig", "milk_yield_kg_per_milk_bearing_animal_per_year"):
        if k in opts:  # option keys that name a column of the row override it (apply_custom_parameters)
            out[{"kg_meat_per_chicken": "KG_MEAT_PER_CHICKEN", "kg_meat_per_pig": "KG_MEAT_PER_PIG"}.get(k, "MILK_YIELD_KG_PER_MILK_BEARING_ANIMAL_PER_YEAR")] = float(opts[k])
    w = opts.get("waste")
    if w == "zero":
        out["WASTE_DISTRIBUTION"] = dict(inp["WASTE_DISTRIBUTION"], MEAT=0.0, MILK=0.0)
        out["WASTE_RETAIL"] = 0.0
    elif w in ("baseline_in_country", "doubled_prices_in_country", "tripled_prices_in_country"):
        out["WASTE_DISTRIBUTION"] = dict(inp["WASTE_DISTRIBUTION"], MEAT=float(row["distribution_loss_meat"]) * 100, MILK=float(row["distribution_loss_dairy"]) * 100)
        out["WASTE_RETAIL"] = float(row[{"baseline_in_country": "retail_waste_baseline", "doubled_prices_in_country": "retail_waste_price_double",
                                         "tripled_prices_in_country": "retail_waste_price_triple"}[w]]) * 100
    out["ADD_MILK"] = opts.get("cull") == "do_eat_culled"
    return out


def herd_meat_milk(obj, inp, N, opts=None):
    dist = inp["WASTE_DISTRIBUTION"]["MEAT"] / 100.0
    kg = dict(KG)
    # the large-animal weight override is taken from the options the harness submitted (not from the constants the model
    # carries from round to round, which a defect could consume or overwrite on the way)
    if opts is not None and "kg_meat_per_large_animal" in opts:
        kg["large"] = float(opts["kg_meat_per_large_animal"])
    elif opts is None and "kg_meat_per_large_animal" in inp:
        kg["large"] = float(inp["kg_meat_per_large_animal"])
    meat = np.zeros(N)
    milkpop = np.zeros(N)
    species = 0
    for a in obj.all_animals:
        sl = np.asarray(a.slaughter, float)
        if a.animal_type == "chicken":
            y = inp["KG_MEAT_PER_CHICKEN"] * KC["small"] / 1e9
        elif a.animal_type == "pig":
            y = inp["KG_MEAT_PER_PIG"] * KC["medium"] / 1e9
        else:
            y = kg[a.animal_size] * KC[a.animal_size] / 1e9
        meat += sl * y * (1 - dist)
        species += 1
        if "milk" in a.animal_type:
            milkpop += np.asarray(a.population, float)
    milk = (milkpop * inp["MILK_YIELD_KG_PER_MILK_BEARING_ANIMAL_PER_YEAR"] / 12.0 * 610.0 / 1e9
            * (1 - inp["WASTE_DISTRIBUTION"]["MILK"] / 100.0) * (1 - inp["WASTE_RETAIL"] / 100.0))
    if not inp["ADD_MILK"]:
        milk = np.zeros(N)
    return meat, milk, species


def monitor(tr, case):
    viol, rounds = [], []

    def bad(mech, msg, **d):
        d.update(iso=case["iso"], tag=case.get("tag"))
        viol.append({"mech": mech, "msg": "%s %s" % (case["iso"], msg), "data": d})

    nl, nh = len(tr.lps), len(tr.herds)
    if nl == 3 and nh == 3:
        pairs = [(0, 0, "month"), (1, 1, "total"), (2, 2, "month")]
        shape = "three_rounds"
    elif nl == 1 and nh == 1:
        pairs = [(0, 0, "month")]
        shape = "rounds_1_2_skipped"
    elif nl == 2 and nh == 2 and all(lp.kind == "to_humans" for lp in tr.lps):
        pairs = [(0, 0, "month"), (1, 0, "month")]
        shape = "round_2_aborted"
    else:
        return viol, {"audited": 0, "shape": "unpaired(%d lps,%d herds)" % (nl, nh), "rounds": []}
    # supply bounds of every herd run
    for hk, (snap, obj) in enumerate(tr.herds):
        fu, gu = np.asarray(obj.feed_used.kcals, float), np.asarray(obj.grass_used.kcals, float)
        fa, ga = snap["feed"], snap["grass"]
        if ga is not None:
            over = gu - ga[: len(gu)]
            if over.max() > 1e-9 * max(1.0, ga.max()) + 1e-9:
                bad("herd_ate_more_grass_than_available", "herd run %d month %d: grass eaten %.8g > available %.8g" % (hk + 1, int(over.argmax()), gu[int(over.argmax())], ga[int(over.argmax())]), herd=hk + 1)
        if fa is not None:
            over = fu - fa[: len(fu)]
            if over.max() > 1e-9 * max(1.0, fa.max()) + 1e-9:
                bad("herd_ate_more_feed_than_supplied", "herd run %d month %d: feed eaten %.8g > supplied %.8g" % (hk + 1, int(over.argmax()), fu[int(over.argmax())], fa[int(over.argmax())]), herd=hk + 1)
        if (fu < -1e-9).any() or (gu < -1e-9).any():
            bad("herd_negative_consumption", "herd run %d: negative feed/grass use" % (hk + 1), herd=hk + 1)
    for li, hi, mode in pairs:
        lp = tr.lps[li]
        snap, obj = tr.herds[hi]
        c, t, N = lp.consts, lp.time_consts, lp.N
        inp = independent_inputs(case, c["inputs"])
        meat, milk, nspecies = herd_meat_milk(obj, inp, N, case["opts"])
        em = np.asarray(t["each_month_meat_slaughtered"].kcals, float)
        mk = np.asarray(t["milk_kcals"], float)
        rd = {"round": li + 1, "kind": lp.kind, "mode": mode, "species": nspecies, "large_animal_override": case["opts"].get("kg_meat_per_large_animal"), "meat_total": float(meat.sum()), "milk_total": float(milk.sum()),
              "feed_charged": float(np.sum(t["feed"].kcals)), "feed_eaten": float(np.sum(obj.feed_used.kcals))}
        sc = max(1e-9, float(np.abs(meat).max()))
        if len(em) != N or len(mk) != N:
            bad("series_length", "round %d: meat/milk series have %d/%d months, horizon %d" % (li + 1, len(em), len(mk), N), round=li + 1)
            rounds.append(rd)
            continue
        if mode == "month":
            d = np.abs(em - meat)
            rd["meat_maxrel"] = float(d.max() / sc)
            if d.max() > 1e-9 * sc + 1e-12:
                m = int(d.argmax())
                bad("meat_series_differs_from_herd_slaughter", "round %d month %d: optimiser told %.10g billion kcal of meat, herds x yields give %.10g" % (li + 1, m, em[m], meat[m]),
                    round=li + 1, month=m, rel=float(d.max() / sc))
        else:
            d = abs(em.sum() - meat.sum())
            rd["meat_total_rel"] = float(d / max(1e-9, meat.sum()))
            if d > 1e-6 * max(1.0, meat.sum()) + 2e-3:
                bad("meat_total_differs_from_herd_slaughter", "round %d (re-timed): optimiser told %.10g in total, herds x yields give %.10g" % (li + 1, em.sum(), meat.sum()), round=li + 1)
            if (em < -1e-3).any():
                bad("retimed_meat_negative", "round %d: re-timed meat negative (%.6g)" % (li + 1, em.min()), round=li + 1)
        # total offered = what the cap uses
        if c["ADD_MEAT"]:
            tot = c["meat_summed_consumption"]
            if abs(tot - meat.sum()) > 1e-9 * max(1.0, meat.sum()) + (2e-3 if mode == "total" else 1e-9):
                bad("meat_total_cap_differs_from_herd_slaughter", "round %d: total meat cap %.10g vs herds x yields %.10g" % (li + 1, tot, meat.sum()), round=li + 1)
            run = np.asarray(t["max_consumed_culled_kcals_each_month"], float)
            if not np.allclose(run, np.cumsum(em), rtol=1e-9, atol=1e-9 * max(1.0, em.sum())):
                bad("running_meat_total_differs_from_series", "round %d: running total is not the cumulative sum of the monthly meat series" % (li + 1), round=li + 1)
        scm = max(1e-9, float(np.abs(milk).max()))
        d = np.abs(mk - milk)
        rd["milk_maxrel"] = float(d.max() / scm)
        if d.max() > 1e-9 * scm + 1e-12:
            m = int(d.argmax())
            bad("milk_series_differs_from_milking_herd", "round %d month %d: optimiser told %.10g billion kcal of milk, milking herd x yield gives %.10g" % (li + 1, m, mk[m], milk[m]),
                round=li + 1, month=m)
        # feed coupling
        charged = np.asarray(t["feed"].kcals, float)
        eaten = np.asarray(obj.feed_used.kcals, float)
        if lp.kind == "to_humans":
            short = eaten - charged
            # (the charge is the herds' own feed series, raised where round 3 adds to it: never smaller, not even by rounding)
            if short.max() > 1e-12 * max(1.0, eaten.max()):
                m = int(short.argmax())
                bad("feed_charged_less_than_herds_ate", "round %d month %d: charged %.10g but the herds behind this round's meat ate %.10g" % (li + 1, m, charged[m], eaten[m]), round=li + 1, month=m)
            if not charged.any():
                fin = snap["feed"]
                if (fin is not None and np.abs(fin).max() > 0) or np.abs(eaten).max() > 0:
                    bad("no_feed_charged_but_herds_were_fed", "round %d charges no feed but its herds were offered %.6g / ate %.6g" % (li + 1, 0 if fin is None else fin.sum(), eaten.sum()), round=li + 1)
        rounds.append(rd)
    return viol, {"audited": len(rounds), "shape": shape, "rounds": rounds}


def run_case(case, tier):
    return pipeline.run(case, monitor)


def summarize(cases, records, tier):
    cov, ok, audited = pipeline.base_summary(
        cases, records, lambda r: any(x["meat_total"] > 0 and x["milk_total"] > 0 for x in r["obs"]["rounds"]),
        "one case = one three-round run; evaluations = (round, herd simulation) pairs whose meat and milk series were recomputed from the captured herds; "
        "non-trivial = a round with non-zero meat and non-zero milk; distinct by (iso, option vector)",
        lambda r: {"iso": r["obs"]["iso"], "tag": r["obs"]["tag"], "shape": r["obs"]["shape"], "rounds": r["obs"]["rounds"]},
        min_audited=max(10, len(cases) // 3))
    cov["runs_by_shape"] = dict(collections.Counter(r["obs"].get("shape") for r in ok))
    cov["rounds_with_feed_charged_and_eaten"] = sum(1 for r in audited for x in r["obs"]["rounds"] if x["feed_charged"] > 0 and x["feed_eaten"] > 0)
    cov["runs_with_large_animal_weight_override"] = sum(1 for r in audited if any(x.get("large_animal_override") is not None for x in r["obs"]["rounds"]))
    cov["retimed_rounds_checked_in_total"] = sum(1 for r in audited for x in r["obs"]["rounds"] if x["mode"] == "total")
    if cov["rounds_with_feed_charged_and_eaten"] == 0 and "inconclusive_reason" not in cov:
        cov["inconclusive_reason"] = "no round with feed both charged and eaten"
    return cov
