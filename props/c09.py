"""C09 — cropland is neither double-counted nor lost between crops and greenhouses.

Paired first-round parameter computations (same country/options, resilient-food set
varied) + OutdoorCrops/Greenhouses called directly with generated constants down to
tiny baselines."""
import collections
import random

import numpy as np

from props import c08
from vlib import capture, env, workload

ASSUMPTIONS = [
    "grown series recomputed independently from the inputs (C08 closed form without waste): annual x seasonality x ratio; with relocation the ratio is raised to the configured exponent when <= 1 from month (harvest duration + rotation delay) on; cropland expansion multiplies the relocated series by the documented linear ramp",
    "greenhouse fraction = greenhouse area built (returned by get_greenhouse_area, captured by wrapping) / (INITIAL_GLOBAL_CROP_AREA x INITIAL_CROP_AREA_FRACTION), zero for a country without cropland; the object's own fraction must equal it",
    "tolerance 1e-9 relative to the largest monthly value; quantisation probed by scaling the crop baseline by 1e-6 and 1e-3 (output must scale exactly, 1e-12)",
]
REL = 1e-9
_gh = {"last": None, "installed": False}


def install():
    if _gh["installed"]:
        return
    _gh["installed"] = True
    from src.food_system.greenhouses import Greenhouses

    orig = Greenhouses.get_greenhouse_area

    def w(self, constants_for_params, outdoor_crops):
        r = orig(self, constants_for_params, outdoor_crops)
        _gh["last"] = (self, np.asarray(r, float).copy())
        return r

    Greenhouses.get_greenhouse_area = w


SCEN = ["no_resilient_foods", "relocated_crops", "greenhouse", "all_resilient_foods", "all_resilient_foods_and_more_area"]


def gen_cases(tier, seed):
    rnd = random.Random(900 + seed)
    isos = workload.all_isos()
    if tier == "quick":
        sel = workload.zero_rows(seed, 4) + workload.rotate([i for i in workload.HOSTILE if i in isos], seed * 2)[:14] + rnd.sample(isos, 16)
        sel = list(dict.fromkeys(sel))
    else:
        sel = isos
    cases = []
    for k, iso in enumerate(sel):
        for j in range(1 if tier == "quick" else 8):
            o = workload.base_country(NMONTHS=workload.FAMILIES_COMMON["NMONTHS"][(k + j) % 7],
                                      crop_disruption=rnd.choice(["country_nuclear_winter", "country_nuclear_winter", "zero"]),
                                      seasonality=rnd.choice(["country", "country", "no_seasonality"]),
                                      waste=rnd.choice(workload.FAMILIES_COUNTRY["waste"]))
            if rnd.random() < 0.3:
                o["CROP_PRODUCTION_MULTIPLIER"] = rnd.choice([0.5, 0.1, 2, 1.5])
            cases.append({"kind": "paired", "iso": iso, "opts": o, "id": "%s#%d" % (iso, j)})
    g = [x for x in workload.manuscript_presets() if x[0] == "ms:fig3:example_scenario"][0][1]
    for j in range(2 if tier == "quick" else 6):
        o = dict(g, NMONTHS=workload.FAMILIES_COMMON["NMONTHS"][j % 7])
        cases.append({"kind": "paired", "iso": "WOR", "opts": o, "id": "WOR#%d" % j})
    for k in range(24 if tier == "quick" else 1200):
        cases.append({"kind": "direct", "gen_seed": seed * 4099 + k, "examples": 12, "id": "direct#%d" % k})
    # where the monthly quantities end up: the harvest constant of each month's crop balance in the models the optimiser builds
    # (all three rounds of a real run) is the series handed over, not a rounded copy of it; countries whose monthly harvest is a
    # fraction of a billion kcal first (a rounding to thousandths is 1 % of Djibouti's month and nothing of Argentina's)
    tiny = [i for i in ("DJI", "SGP", "QAT", "BHR", "MLT", "LUX", "BRB", "ISL", "CPV", "MUS", "BRN", "KWT") if i in isos]
    # ... and countries with a marked harvest calendar (two consecutive months never alike: a constant taken from the month before or
    # after shows), since several of the tiny rows have a flat calendar
    marked = workload.rotate([i for i in ("ARG", "USA", "VNM", "IND", "CAN", "AUS", "FRA", "UKR") if i in isos], seed)[: (3 if tier == "quick" else 8)]
    sel2 = workload.rotate(tiny, seed)[: (5 if tier == "quick" else 12)] + marked + rnd.sample(isos, 3 if tier == "quick" else 40)
    for k, iso in enumerate(sel2):
        o = workload.base_country(scenario=["all_resilient_foods", "no_resilient_foods", "greenhouse", "relocated_crops", "all_resilient_foods_and_more_area"][(k + seed) % 5],
                                  NMONTHS=[120, 72, 48][k % 3], shutoff=["long_delayed_shutoff", "continued", "immediate"][k % 3],
                                  ratio_stocks_untouched=workload.FAMILIES_COMMON["ratio_stocks_untouched"][k % len(workload.FAMILIES_COMMON["ratio_stocks_untouched"])])
        cases.append({"kind": "in_model", "iso": iso, "opts": o, "id": "in_model/%s#%d" % (iso, k)})
    return cases


def ref_grown(inp, N, iso):
    """(not relocated, effective) grown series before waste and greenhouse area."""
    seas = [float(x) for x in inp["SEASONALITY"]]
    m = np.arange(N)
    R = [None] + [float(inp["RATIO_CROPS_YEAR%d" % y]) for y in range(1, 11)]
    yr = c08.year_of_month(m)
    ratio = np.array([c08.year1_ratio(R[1], seas, iso) if y == 1 else R[y] for y in yr], float)
    ratio = np.where(ratio <= 0, np.round(ratio, 8), ratio)
    annual = inp["BASELINE_CROP_KCALS"] * (1 - 92.0 / 3898.0) * 4e6 / 1e9
    month = annual * np.array(seas)[(4 + m) % 12]
    plain = month * ratio
    eff = plain.copy()
    if inp["OG_USE_BETTER_ROTATION"]:
        ex = inp["ROTATION_IMPROVEMENTS"]["POWER_LAW_IMPROVEMENT"]
        rel = np.where(ratio > 1, month * ratio, month * np.power(np.maximum(ratio, 0), ex))
        if inp.get("RATIO_INCREASED_CROP_AREA", 1) > 1:
            n0 = inp["INITIAL_HARVEST_DURATION_IN_MONTHS"]
            tot = inp["NUMBER_YEARS_TAKES_TO_REACH_INCREASED_AREA"] * 12
            mx = inp["RATIO_INCREASED_CROP_AREA"]
            ramp = np.where(m < n0, 1.0, np.where(m < tot, 1 + (m - n0) * (mx - 1) / (tot - n0), mx))
            rel = rel * ramp
        hd = inp["INITIAL_HARVEST_DURATION_IN_MONTHS"] + inp["DELAY"]["ROTATION_CHANGE_IN_MONTHS"]
        eff = np.where(m >= hd, rel, plain)
    return plain, eff


class Ck(c08.Checker):
    pass


def first(iso, opts):
    import pandas as pd
    from src.optimizer.parameters import Parameters
    from src.scenarios.run_scenario import ScenarioRunner

    capture.install()
    install()
    _gh["last"] = None
    if iso == "WOR":
        c, t, l = ScenarioRunner().set_depending_on_option(dict(opts))
    else:
        tab = pd.read_csv(env.REPO + "/data/no_food_trade/computer_readable_combined.csv")
        row = tab[tab.iso3 == iso].iloc[0]
        c, t, l = ScenarioRunner().set_depending_on_option(dict(opts), country_data=row)
    out = Parameters().compute_parameters_first_round(c, t, l)
    return out[0]["inputs"], out[1], _gh["last"]


def check_one(ck, inp, prod, ghobj, ghar, N, iso, tag, data):
    """production = grown x (1 - greenhouse fraction) x (1 - distribution waste); greenhouse area schedule."""
    plain, eff = ref_grown(inp, N, iso)
    dist = 1 - inp["WASTE_DISTRIBUTION"]["CROPS"] / 100.0
    # the share of cropland under greenhouses, from the greenhouse area actually built (not from the object's own fraction):
    # area / (global cropland x the country's share of it); a country without cropland has no greenhouses and loses nothing
    total_area = float(inp["INITIAL_GLOBAL_CROP_AREA"]) * float(inp["INITIAL_CROP_AREA_FRACTION"])
    if ghobj is not None and ghar is not None and len(ghar) == N:
        frac = np.asarray(ghar, float) / total_area if total_area > 0 else np.zeros(N)
        own = np.asarray(ghobj.greenhouse_fraction_area, float)
        if own.shape != frac.shape or np.abs(own - frac).max() > 1e-12:
            m = int(np.abs(own - frac).argmax()) if own.shape == frac.shape else 0
            ck.bad("greenhouse_fraction_differs_from_area_built", "%s month %d: fraction taken from outdoor crops %.8g, greenhouse area built / cropland = %.8g (cropland %.6g ha)" % (
                tag, m, own[m] if own.shape == frac.shape else float("nan"), frac[m], total_area), scenario=tag, **data)
    else:
        frac = np.asarray(ghobj.greenhouse_fraction_area, float) if ghobj is not None else np.zeros(N)
    want = eff * (1 - frac) * dist
    got = np.asarray(prod, float)
    sc = max(1e-300, float(np.abs(want).max()), float(np.abs(got).max()), 1e-9 * inp["BASELINE_CROP_KCALS"] * 4e6 / 1e9 / 12)
    d = np.abs(got - want) / sc
    ck.maxres[tag] = max(ck.maxres.get(tag, 0), float(d.max()))
    active = bool(frac.max() > 0)
    if d.max() > REL:
        m = int(d.argmax())
        # classify the two mechanisms found while designing the monitor
        nosub = eff * dist
        mech = "outdoor_crops_differ_from_grown_minus_greenhouse_area"
        if inp["OG_USE_BETTER_ROTATION"] and np.array_equal(got, np.trunc(eff * (1 - frac)).astype(float) * dist):
            mech = "relocated_crops_truncated_to_whole_billion_kcal"
        elif (not inp["OG_USE_BETTER_ROTATION"]) and active and np.abs(got - nosub).max() <= REL * sc:
            mech = "greenhouse_area_not_subtracted_without_relocation"
        ck.bad(mech, "%s month %d: outdoor crops %.10g, grown %.10g x (1 - greenhouse fraction %.6g) x (1 - waste) = %.10g" % (tag, m, got[m], eff[m], frac[m], want[m]),
               scenario=tag, month=m, **data)
    if inp["ADD_GREENHOUSES"] and ghobj is not None:
        delay = inp["DELAY"]["GREENHOUSE_MONTHS"]
        lim = inp["GREENHOUSE_AREA_MULTIPLIER"] * inp["INITIAL_GLOBAL_CROP_AREA"] * inp["INITIAL_CROP_AREA_FRACTION"]
        a = ghar
        if len(a) != N:
            ck.bad("greenhouse_area_wrong_length", "%s: %d values for %d months" % (tag, len(a), N), scenario=tag, **data)
        else:
            if a[: delay + 5].max() > 0:
                ck.bad("greenhouse_area_before_delay", "%s: greenhouse area %.6g before month %d" % (tag, a[: delay + 5].max(), delay + 5), scenario=tag, **data)
            if (np.diff(a) < -1e-9 * max(1.0, lim)).any():
                ck.bad("greenhouse_area_decreases", "%s: greenhouse area decreases in month %d" % (tag, int(np.diff(a).argmin()) + 1), scenario=tag, **data)
            if a.max() > lim * (1 + 1e-12):
                ck.bad("greenhouse_area_exceeds_share", "%s: greenhouse area %.6g above its share of cropland %.6g" % (tag, a.max(), lim), scenario=tag, **data)
            # documented ramp: linear over 36 months after delay + 5 months, then constant
            m = np.arange(N)
            ref = np.clip((m - (delay + 5)) / 36.0, 0, 1) * lim
            if np.abs(a - ref).max() > REL * max(1e-300, lim):
                ck.bad("greenhouse_area_differs_from_documented_ramp", "%s month %d: area %.8g, documented ramp %.8g" % (tag, int(np.abs(a - ref).argmax()), a[int(np.abs(a - ref).argmax())], ref[int(np.abs(a - ref).argmax())]), scenario=tag, **data)
            if (frac > 1 + 1e-12).any() or (frac < 0).any():
                ck.bad("greenhouse_fraction_out_of_range", "%s: greenhouse fraction outside [0,1]" % tag, scenario=tag, **data)
    return got, active


def check_nutrients(ck, inp, production, tag, data):
    """fat and protein of the outdoor-crop output are the calories (after the greenhouse share and waste) times the crop's content"""
    annual = inp["BASELINE_CROP_KCALS"] * (1 - 92.0 / 3898.0) * 4e6 / 1e9
    if not annual:
        return
    k = np.asarray(production.kcals, float)
    for nm, comp, base in (("fat", production.fat, inp["BASELINE_CROP_FAT"]), ("protein", production.protein, inp["BASELINE_CROP_PROTEIN"])):
        got = np.asarray(comp, float)
        want = k * (base / 1e3) / annual
        sc = max(1e-300, float(np.abs(want).max()), float(np.abs(got).max()) if got.size else 0.0)
        if got.shape != want.shape or float(np.abs(got - want).max()) / sc > REL:
            m = int(np.abs(got - want).argmax()) if got.shape == want.shape else 0
            ck.bad("crop_nutrients_differ_from_reduced_calories", "%s month %d: %s %.10g, output calories %.10g x crop content = %.10g" % (tag, m, nm, got[m], k[m], want[m]), scenario=tag, nutrient=nm, **data)


def paired(case):
    iso, opts = case["iso"], case["opts"]
    N = opts["NMONTHS"]
    ck = Ck("%s %s" % (iso, case["id"]))
    data = {"iso": iso, "N": N}
    prods = {}
    nact = 0
    try:
        for sc in SCEN:
            inp, tc, gh = first(iso, dict(opts, scenario=sc))
            ghobj, ghar = gh if gh is not None else (None, None)
            prods[sc], act = check_one(ck, inp, tc["outdoor_crops"].production.kcals, ghobj, ghar, N, iso, sc, data)
            check_nutrients(ck, inp, tc["outdoor_crops"].production, sc, data)
            nact += act
            ggot = np.asarray(tc["greenhouse_crops"].kcals, float)
            if len(ggot) != N or not np.isfinite(ggot).all() or ggot.min() < 0:
                ck.bad("greenhouse_output_invalid", "%s: greenhouse output not one finite non-negative value per month" % sc, scenario=sc, **data)
            if not inp["ADD_GREENHOUSES"] and ggot.max() > 0:
                ck.bad("greenhouse_output_without_greenhouses", "%s: greenhouse output %.6g although greenhouses are off" % (sc, ggot.max()), scenario=sc, **data)
    except BaseException as e:  # noqa: BLE001
        if isinstance(e, KeyboardInterrupt):
            raise
        return {"viol": ck.viol, "obs": {"paired": True, "iso": iso, "failed": repr(e)[:160], "audited": 0}}
    tol = lambda a: 1e-9 * max(1e-300, float(np.abs(a).max()))  # noqa: E731
    for hi, lo, what in (("relocated_crops", "no_resilient_foods", "relocation"), ("all_resilient_foods_and_more_area", "all_resilient_foods", "cropland_expansion")):
        diff = prods[lo] - prods[hi]
        if diff.max() > tol(prods[lo]):
            m = int(diff.argmax())
            mech = what + "_lowers_output"
            if what == "relocation" and np.array_equal(prods[hi], np.trunc(prods[hi])) and not np.array_equal(prods[lo], np.trunc(prods[lo])):
                mech = "relocated_crops_truncated_to_whole_billion_kcal"
            ck.bad(mech, "month %d: %s gives %.8g, %s gives %.8g" % (m, hi, prods[hi][m], lo, prods[lo][m]), month=m, **data)
    return {"viol": ck.viol, "obs": {"paired": True, "iso": iso, "N": N, "audited": len(SCEN), "greenhouse_active_runs": nact, "maxres": ck.maxres,
                                     "max_monthly_output": float(prods["no_resilient_foods"].max()), "viol_counts": dict(ck.seen)}}


def direct(case):
    from src.food_system.greenhouses import Greenhouses
    from src.food_system.outdoor_crops import OutdoorCrops

    install()
    rnd = random.Random(case["gen_seed"])
    ck = Ck("direct seed=%d" % case["gen_seed"])
    nt = 0
    ex = []
    for e in range(case["examples"]):
        N = rnd.choice([48, 60, 72, 84, 96, 108, 120])
        scale = rnd.choice([1e-6, 1e-4, 1e-2, 1.0, 1e2, 1e4])  # monthly output from 1e-6 of a billion kcal upwards
        seas = np.array([rnd.random() + 0.05 for _ in range(12)])
        seas = list(seas / seas.sum())
        reloc = rnd.random() < 0.6
        gh = rnd.random() < 0.6
        area_ratio = rnd.choice([1, 1, 72 / 39, rnd.uniform(1, 3)]) if reloc else 1
        c = {"NMONTHS": N, "STARTING_MONTH_NUM": 5, "BASELINE_CROP_KCALS": scale * rnd.uniform(0.5, 5) * 12 / (4e6 / 1e9), "BASELINE_CROP_FAT": 1.0, "BASELINE_CROP_PROTEIN": 1.0,
             "ADD_OUTDOOR_GROWING": True, "OG_USE_BETTER_ROTATION": reloc, "SEASONALITY": seas, "COUNTRY_CODE": rnd.choice(["ARG", "XXX", "JPN"]),
             "RATIO_INCREASED_CROP_AREA": area_ratio, "NUMBER_YEARS_TAKES_TO_REACH_INCREASED_AREA": rnd.choice([2, 3, 4]), "INITIAL_HARVEST_DURATION_IN_MONTHS": 8,
             "ROTATION_IMPROVEMENTS": {"POWER_LAW_IMPROVEMENT": rnd.choice([1.0, 0.8, 0.5, rnd.uniform(0.3, 1)]), "FAT_RATIO": 1.6, "PROTEIN_RATIO": 1.1},
             "WASTE_DISTRIBUTION": {"CROPS": rnd.choice([0, 5.0, 30.0, rnd.uniform(0, 90)])}, "WASTE_RETAIL": rnd.choice([0, 10.0]),
             "DELAY": {"ROTATION_CHANGE_IN_MONTHS": rnd.choice([0, 2, 6]), "GREENHOUSE_MONTHS": rnd.choice([0, 2, 6, 12])},
             "INITIAL_GLOBAL_CROP_AREA": 1.43e9, "INITIAL_CROP_AREA_FRACTION": rnd.choice([1.0, 0.01, 1e-5]), "ADD_GREENHOUSES": gh,
             "GREENHOUSE_AREA_MULTIPLIER": rnd.choice([0.19e9 / 1.43e9, 0.5, 0.01, 1.0]), "GREENHOUSE_GAIN_PCT": 44, "STARTING_MONTH_NUM_": 5}
        for y in range(1, 12):
            c["RATIO_CROPS_YEAR%d" % y] = rnd.choice([0, 1, rnd.uniform(0, 1), rnd.uniform(0, 2)])
        data = {"gen_seed": case["gen_seed"], "example": e, "relocation": reloc, "greenhouses": gh, "N": N, "scale": scale}

        def run(cc):
            oc = OutdoorCrops(cc)
            oc.calculate_rotation_ratios(cc)
            oc.calculate_monthly_production(cc)
            g = Greenhouses(cc)
            ar = g.get_greenhouse_area(cc, oc)
            oc.set_crop_production_minus_greenhouse_area(cc, g.greenhouse_fraction_area)
            return np.asarray(oc.production.kcals, float), g, np.asarray(ar, float)

        try:
            got, g, ar = run(c)
        except AssertionError as err:
            ck.bad("class_rejects_valid_constants", "AssertionError %s" % str(err)[:80], **data)
            continue
        tag = "direct(%s%s)" % ("reloc" if reloc else "plain", "+gh" if gh else "")
        _, act = check_one(ck, c, got, g, ar, N, c["COUNTRY_CODE"], tag, data)
        nt += bool(act or reloc)
        for k in (1e-6, 1e-3):
            got2, _, _ = run(dict(c, BASELINE_CROP_KCALS=c["BASELINE_CROP_KCALS"] * k))
            if np.abs(got2 - got * k).max() > 1e-12 * max(1e-300, float(np.abs(got * k).max())):
                m = int(np.abs(got2 - got * k).argmax())
                mech = "output_quantised"
                if reloc and np.array_equal(got2 / (1 - c["WASTE_DISTRIBUTION"]["CROPS"] / 100.0), np.round(got2 / (1 - c["WASTE_DISTRIBUTION"]["CROPS"] / 100.0))):
                    mech = "relocated_crops_truncated_to_whole_billion_kcal"
                ck.bad(mech, "%s: baseline x %g gives month %d = %.10g instead of %.10g" % (tag, k, m, got2[m], got[m] * k), factor=k, **data)
                break
        if e < 2:
            ex.append({"N": N, "relocation": reloc, "greenhouses": gh, "monthly_scale": scale, "first_months": got[:4].tolist()})
    return {"viol": ck.viol, "obs": {"direct": True, "audited": case["examples"], "nontrivial": int(nt), "maxres": ck.maxres, "examples": ex, "viol_counts": dict(ck.seen)}}


def in_model(case):
    from vlib import capture

    tr = capture.run_pipeline({"kind": "pipeline", "iso": case["iso"], "opts": case["opts"], "tag": case["id"]})
    viol, n, worst, smallest = [], 0, 0.0, None
    for k, lp in enumerate(tr.lps):
        prod = np.asarray(lp.time_consts["outdoor_crops"].production.kcals, float)
        for m in range(lp.N):
            c = lp.model.constraints.get("Crops_Food_Storage_%d_Constraint" % m)
            if c is None:
                continue
            n += 1
            got = abs(float(c.constant))
            d = abs(got - prod[m]) / max(abs(prod[m]), 1e-300) if prod[m] != got else 0.0
            worst = max(worst, d)
            if prod[m] > 0:
                smallest = prod[m] if smallest is None else min(smallest, prod[m])
            if d > 1e-12 and len(viol) < 2:
                viol.append({"mech": "harvest_in_model_differs_from_series", "msg": "%s round %d month %d: the crop balance of the model holds a harvest of %.12g, the series handed to the optimiser %.12g" % (
                    case["iso"], k + 1, m, got, prod[m]), "data": {"iso": case["iso"], "round": k + 1, "month": m, "relative_difference": d}})
    return {"viol": viol, "obs": {"in_model": True, "iso": case["iso"], "N": case["opts"]["NMONTHS"], "audited": n, "rounds": len(tr.lps), "worst": worst, "smallest_positive_month": smallest,
                                  "failed": tr.error}}


def run_case(case, tier):
    if case["kind"] == "paired":
        return paired(case)
    if case["kind"] == "in_model":
        return in_model(case)
    return direct(case)


def summarize(cases, records, tier):
    ok = [r for r in records if r.get("status") == "ok"]
    pr = [r for r in ok if r["obs"].get("paired")]
    im = [r for r in ok if r["obs"].get("in_model")]
    pr_ok = [r for r in pr if r["obs"]["audited"] > 0]
    dr = [r for r in ok if r["obs"].get("direct")]
    maxres = {}
    for r in ok:
        for k, v in r["obs"].get("maxres", {}).items():
            maxres[k] = max(maxres.get(k, 0), v)
    small = sum(1 for r in pr_ok if r["obs"]["max_monthly_output"] < 1)
    cov = {
        "evaluations": int(sum(r["obs"]["audited"] for r in ok)),
        "distinct_nontrivial": len({(r["obs"]["iso"], r["case_id"]) for r in pr_ok if r["obs"]["greenhouse_active_runs"] > 0}) + int(sum(r["obs"]["nontrivial"] for r in dr)),
        "rule": "paired cases: (country, options) run under 5 resilient-food sets (none / relocation / greenhouse / all / all + more area), non-trivial = greenhouse area active in some run; "
                "direct cases: generated constants with relocation and/or greenhouses and baselines down to 1e-6 billion kcal per month incl. two scaling re-runs; evaluations = outdoor-crop series checked + monthly harvest constants compared inside the models of real runs (in_model cases)",
        "samples": [{k: r["obs"].get(k) for k in ("iso", "N", "greenhouse_active_runs", "max_monthly_output", "maxres")} for r in pr_ok[:: max(1, len(pr_ok) // 5)]][:6]
        + [{"direct_examples": r["obs"]["examples"]} for r in dr[:2]],
        "balance_constants_compared_inside_built_models": int(sum(r["obs"]["audited"] for r in im)), "runs_with_models_inspected": sum(1 for r in im if r["obs"]["audited"]),
        "smallest_positive_monthly_harvest_seen_in_a_model": min([r["obs"]["smallest_positive_month"] for r in im if r["obs"].get("smallest_positive_month")] or [None], key=lambda x: (x is None, x)),
        "paired_cases": len(pr_ok), "paired_failed": len(pr) - len(pr_ok), "countries": len({r["obs"]["iso"] for r in pr_ok}),
        "countries_with_monthly_output_below_one_billion_kcal": small, "direct_examples": int(sum(r["obs"]["audited"] for r in dr)),
        "max_relative_residual_by_scenario": maxres,
    }
    if len(pr_ok) < 0.7 * max(1, len(pr)):
        cov["inconclusive_reason"] = "only %d of %d paired cases completed" % (len(pr_ok), len(pr))
    if not dr:
        cov["inconclusive_reason"] = "no direct cases"
    return cov
