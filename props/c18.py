"""C18 — hand-offs between rounds preserve totals, bounds and priorities."""
import collections
import random

import numpy as np

from props import pipeline
from props.c05 import herd_meat_milk
from vlib import workload

ASSUMPTIONS = [
    "priority order fish, meat, dairy, greenhouse, outdoor crops, stored food, single-cell protein, cellulosic sugar, seaweed (property statement)",
    "generated inputs for the minimum-needs helper are consistent round-1 results: the headline is the minimum over months of the summed series (as every real round-1 result is); months are additionally generated with totals below the cap to exercise the 'whenever that much was eaten' clause",
    "an AssertionError raised by a helper on a valid generated input is reported as a violation (helper_rejects_valid_input)",
]
ORDER = ["fish", "meat", "dairy", "greenhouse", "outdoor_crops", "stored_food", "methane_scp", "cellulosic_sugar", "seaweed"]
ATTR = {"fish": "fish_kcals_equivalent", "meat": "meat_kcals_equivalent", "dairy": "milk_kcals_equivalent",
        "greenhouse": "greenhouse_kcals_equivalent", "stored_food": "stored_food_kcals_equivalent",
        "methane_scp": "scp_kcals_equivalent", "cellulosic_sugar": "cell_sugar_kcals_equivalent", "seaweed": "seaweed_kcals_equivalent"}


def gen_cases(tier, seed):
    cases = []
    n = 40 if tier == "quick" else 400
    for kind in ("min_needs", "fill", "retime", "bump"):
        for k in range(n):
            cases.append({"kind": kind, "gen_seed": seed * 100003 + k, "examples": 25 if tier == "quick" else 60, "id": "%s#%d" % (kind, k)})
    grid = workload.pipeline_grid(tier, seed, n_random_quick=10, n_random_thorough=60, per_row_quick=1, presets=(tier != "quick"))
    if tier == "thorough":
        grid = grid[::3]
    cases += grid
    # runs in which the re-timing has something to move: feeding only the ruminants delays slaughter, so the fed herds give less
    # meat than the unfed ones in some months (about 35 countries); with culled meat eaten and not eaten, schedules that keep feed
    isos = workload.all_isos()
    rnd = random.Random(1800 + seed)
    late = [i for i in ("PAK", "ALB", "TUN", "MLI", "MNG", "MOZ", "KEN", "TZA", "BFA", "ETH", "NER", "SDN", "AFG", "UZB", "IRN", "DZA") if i in isos]
    pick = workload.rotate(late, seed * 3)[: (8 if tier == "quick" else 16)] + rnd.sample(isos, 2 if tier == "quick" else 24)
    for j, iso in enumerate(pick):
        for rep in range(1 if tier == "quick" else 2):
            o = workload.base_country(meat_strategy=["feed_only_ruminants", "feed_only_ruminants", "baseline_breeding"][(j + rep) % 3], cull=["dont_eat_culled", "do_eat_culled"][(j + rep) % 2],
                                      shutoff=["long_delayed_shutoff_after_10_percent_fed", "continued", "long_delayed_shutoff", "continued_after_10_percent_fed"][(j + rep) % 4],
                                      NMONTHS=[120, 72][(j // 2) % 2], scenario=["no_resilient_foods", "all_resilient_foods"][(j // 3) % 2])
            c = workload.pipeline_case(iso, o, "slaughter_delayed_by_feeding/%s/%s" % (o["cull"], o["shutoff"]))
            c["id"] = "%s/%s#r%d" % (iso, c["tag"], len(cases))
            cases.append(c)
    return cases


# ---------------------------------------------------------------- oracles
def check_min_needs(eaten, mhc, p1, T, KD, where, noise=0.0):
    """eaten/mhc: dict food -> array (kcal/person/day).  Returns list of (mech,msg).
    noise: what the solver's feasibility tolerance on a variable of the round-1 model amounts to in kcal/person/day (real runs only:
    the round-1 result the minimum is taken from can itself be negative by that much)."""
    out = []
    N = len(next(iter(eaten.values())))
    cap = min(p1, T) / 100.0 * KD
    tot_e = sum(eaten[f] for f in ORDER)
    tot_m = sum(mhc[f] for f in ORDER)
    for f in ORDER:
        if (mhc[f] < -(1e-9 * max(1.0, cap) + 1e-9) - noise).any():
            out.append(("min_needs_negative", "%s: %s negative (%.3g in month %d)" % (where, f, float(mhc[f].min()), int(mhc[f].argmin()))))
        over = mhc[f] - eaten[f]
        if over.max() > 1e-9 * max(1.0, eaten[f].max()) + 1e-9:
            out.append(("min_needs_exceeds_eaten", "%s: %s month %d pinned %.8g > eaten %.8g" % (where, f, int(over.argmax()), mhc[f][int(over.argmax())], eaten[f][int(over.argmax())])))
    want = np.minimum(cap, tot_e)
    d = np.abs(tot_m - want)
    if d.max() > 1e-9 * max(1.0, cap) + 1e-9:
        m = int(d.argmax())
        out.append(("min_needs_sum_wrong", "%s: month %d pinned sum %.10g, expected min(cap %.10g, eaten %.10g)" % (where, m, tot_m[m], cap, tot_e[m])))
    # priority: food k > 0 only if foods before it are taken in full
    for m in range(N):
        full_so_far = True
        for f in ORDER:
            if mhc[f][m] > 1e-9 * max(1.0, cap) + 1e-9 and not full_so_far:
                out.append(("min_needs_priority_order", "%s: month %d takes %s (%.6g) although an earlier food was not taken in full" % (where, m, f, mhc[f][m])))
                break
            if mhc[f][m] < eaten[f][m] - (1e-9 * max(1.0, eaten[f][m]) + 1e-9):
                full_so_far = False
    return out


def check_retime(r1, r2, new, where):
    out = []
    if new is None:
        if r1.sum() <= r2.sum():
            out.append(("retime_refused_valid_input", "%s: returned None although round-2 total %.8g >= round-1 total %.8g" % (where, r2.sum(), r1.sum())))
        return out
    sc = max(1.0, abs(r2.sum()))
    if abs(new.sum() - r2.sum()) > 1e-9 * sc + 1e-9:
        out.append(("retime_total_changed", "%s: total %.10g -> %.10g" % (where, r2.sum(), new.sum())))
    mx = max(1.0, np.abs(r2).max())
    if new.min() < -(1e-9 * mx + 1e-9):
        out.append(("retime_negative_month", "%s: month %d = %.6g" % (where, int(new.argmin()), new.min())))
    low = r1 - new
    if low.max() > 1e-9 * mx + 1e-9:
        out.append(("retime_below_no_feed_level", "%s: month %d re-timed %.8g < no-feed %.8g" % (where, int(low.argmax()), new[int(low.argmax())], r1[int(low.argmax())])))
    return out


def check_bump(b0, f0, b1, f1, maxb, maxf, where):
    out = []
    for nm, a0, a1, mx in (("biofuel", b0, b1, maxb), ("feed", f0, f1, maxf)):
        sc = max(1.0, np.abs(a0).max())
        if (a1 - a0).min() < -(1e-9 * sc):
            m = int((a1 - a0).argmin())
            out.append(("bump_lowered_" + nm, "%s: %s month %d lowered %.10g -> %.10g" % (where, nm, m, a0[m], a1[m])))
        raised = a1 > a0 + 1e-9 * sc
        # raised beyond the schedule - or, where it already stood above the schedule, raised at all (beyond the 1e-9 the helper's
        # own division guard leaks)
        over = (a1 - np.maximum(mx, a0))[raised]
        if over.size and over.max() > 1e-6 + 1e-9 * sc:
            m = int(np.where(raised)[0][over.argmax()])
            out.append(("bump_raised_above_demand_" + nm, "%s: %s month %d raised %.10g -> %.10g above its demand %.10g" % (where, nm, m, a0[m], a1[m], mx[m])))
    return out


# ---------------------------------------------------------------- direct generators
class _Stub:
    pass


def _food(arr, units="kcals per person per day each month"):
    from src.food_system.food import Food

    z = np.zeros(len(arr))
    return Food(kcals=np.array(arr, float), fat=z, protein=z.copy(), kcals_units=units,
                fat_units="effective " + units if units.startswith("kcals") else units,
                protein_units="effective " + units if units.startswith("kcals") else units)


def _series(rnd, N, scale):
    shape = rnd.choice(["flat", "random", "sparse", "zero", "ramp", "spike"])
    if shape == "flat":
        a = np.full(N, rnd.uniform(0, scale))
    elif shape == "random":
        a = np.array([rnd.uniform(0, scale) for _ in range(N)])
    elif shape == "sparse":
        a = np.array([rnd.uniform(0, scale) if rnd.random() < 0.3 else 0.0 for _ in range(N)])
    elif shape == "zero":
        a = np.zeros(N)
    elif shape == "ramp":
        a = np.linspace(0, rnd.uniform(0, scale), N)
        if rnd.random() < 0.5:
            a = a[::-1].copy()
    else:
        a = np.zeros(N)
        a[rnd.randrange(N)] = rnd.uniform(0, scale * N / 4)
    return a


def direct(case):
    from src.food_system.food import Food
    from src.optimizer.parameters import Parameters

    rnd = random.Random(case["gen_seed"])
    viol, nontrivial, ex = [], 0, []
    kind = case["kind"]
    for e in range(case["examples"]):
        N = rnd.choice([1, 2, 3, 12, 24, 48, 120])
        where = "%s seed=%d example=%d" % (kind, case["gen_seed"], e)
        try:
            if kind == "min_needs":
                KD = rnd.choice([2100.0, 2345.0, 1800.0, rnd.uniform(1000, 3500)])
                pop = rnd.choice([1e5, 3.3e7, 1.4e9])
                Food.conversions.set_nutrition_requirements(KD, 47.0, 51.0, False, False, pop)
                scale = KD * rnd.choice([0.02, 0.2, 0.5, 1.5])
                eaten = {f: _series(rnd, N, scale) for f in ORDER}
                crops = eaten["outdoor_crops"]
                split = np.array([rnd.random() for _ in range(N)])
                st = _Stub()
                st.include_fat = st.include_protein = False
                for f, a in ATTR.items():
                    setattr(st, a, _food(eaten[f]))
                st.immediate_outdoor_crops_kcals_equivalent = _food(crops * split)
                st.new_stored_outdoor_crops_kcals_equivalent = _food(crops * (1 - split))
                eaten["outdoor_crops"] = crops * split + crops * (1 - split)
                tot = sum(eaten[f] for f in ORDER)
                mode = rnd.choice(["consistent", "consistent", "above_some_months"])
                p1 = float(tot.min() / KD * 100)
                if mode == "above_some_months":
                    p1 = float(np.median(tot) / KD * 100)
                st.percent_people_fed = p1
                T = rnd.choice([0, 5, 10, 50, 100, p1, rnd.uniform(0, 100), p1 * 0.5, p1 + 1e-9])
                T = min(100.0, max(0.0, float(T)))
                ci = {"MINIMUM_PERCENT_FED_BEFORE_NONHUMAN_CONSUMPTION_ALLOWED": T, "NUTRITION": {"KCALS_DAILY": KD}, "NMONTHS": N}
                snap = {f: a.copy() for f, a in eaten.items()}
                try:
                    out = Parameters().calculate_human_consumption_for_min_needs(ci, st, _food(np.zeros(N)))
                except AssertionError as err:
                    if mode == "consistent":
                        viol.append({"mech": "helper_rejects_valid_input", "msg": "%s: %s" % (where, str(err)[:120]),
                                     "data": {"helper": "calculate_human_consumption_for_min_needs", "replay": {"N": N, "KD": KD, "T": T, "p1": p1, "eaten": {f: a.tolist() for f, a in snap.items()}}}})
                    continue
                mhc = {f: np.asarray(out[f].kcals, float) for f in ORDER}
                res = check_min_needs(eaten, mhc, p1, T, KD, where)
                if min(p1, T) > 0 and tot.max() > 0:
                    nontrivial += 1
                if e < 2:
                    ex.append({"N": N, "p1": p1, "T": T, "KD": KD, "cap": min(p1, T) / 100 * KD, "pinned_sum_month0": float(sum(mhc[f][0] for f in ORDER))})
                for mech, msg in res:
                    viol.append({"mech": mech, "msg": msg, "data": {"helper": "calculate_human_consumption_for_min_needs",
                                 "replay": {"N": N, "KD": KD, "T": T, "p1": p1, "eaten": {f: a.tolist() for f, a in snap.items()}}}})
            elif kind == "fill":
                scale = rnd.choice([1.0, 1e3, 1e-3])
                a = np.array([rnd.uniform(-scale, scale) if rnd.random() < 0.7 else 0.0 for _ in range(N)])
                if rnd.random() < 0.7 and a.sum() < 0:
                    a[rnd.randrange(N)] += -a.sum() + rnd.uniform(0, scale)
                a0 = a.copy()
                out = Parameters().fill_negatives_with_positives(a)
                if not np.array_equal(a, a0):
                    viol.append({"mech": "fill_mutates_input", "msg": where, "data": {"helper": "fill_negatives_with_positives"}})
                sc = max(1.0, np.abs(a0).sum())
                if abs(out.sum() - a0.sum()) > 1e-9 * sc:
                    viol.append({"mech": "fill_total_changed", "msg": "%s: %.10g -> %.10g" % (where, a0.sum(), out.sum()), "data": {"helper": "fill_negatives_with_positives", "replay": a0.tolist()}})
                if a0.sum() >= 0 and out.min() < -1e-9 * sc:
                    viol.append({"mech": "fill_leaves_negative", "msg": "%s: total %.6g >= 0 but month %d stays %.6g" % (where, a0.sum(), int(out.argmin()), out.min()),
                                 "data": {"helper": "fill_negatives_with_positives", "replay": a0.tolist()}})
                # takes only from surpluses, gives only to deficits
                if ((out > a0 + 1e-12) & (a0 >= 0)).any() or ((out < a0 - 1e-12) & (a0 <= 0)).any():
                    viol.append({"mech": "fill_moves_wrong_direction", "msg": where, "data": {"helper": "fill_negatives_with_positives", "replay": a0.tolist()}})
                if ((out < -1e-12) & (a0 > 0)).any() or ((out > 1e-12) & (a0 < 0)).any():
                    viol.append({"mech": "fill_overshoots_zero", "msg": where, "data": {"helper": "fill_negatives_with_positives", "replay": a0.tolist()}})
                if (a0 < 0).any() and (a0 > 0).any():
                    nontrivial += 1
                if e < 2:
                    ex.append({"in": a0[:6].tolist(), "out": out[:6].tolist()})
            elif kind == "retime":
                scale = rnd.choice([1.0, 1e3, 1e5])
                r1 = _series(rnd, N, scale)
                r2 = _series(rnd, N, scale)
                if rnd.random() < 0.8 and r2.sum() < r1.sum():
                    r2 = r2 + (r1.sum() - r2.sum()) / N + rnd.uniform(0, scale) / N
                if rnd.random() < 0.1:
                    r2 = r1.copy()
                a1, a2 = r1.copy(), r2.copy()
                try:
                    new = Parameters().get_second_round_kcals_with_redistributed_meat(r1, r2, np.zeros(N), np.zeros(N))
                except AssertionError as err:
                    viol.append({"mech": "helper_rejects_valid_input", "msg": "%s: %s" % (where, str(err)[:100]),
                                 "data": {"helper": "get_second_round_kcals_with_redistributed_meat", "replay": {"r1": a1.tolist(), "r2": a2.tolist()}}})
                    continue
                if not (np.array_equal(r1, a1) and np.array_equal(r2, a2)):
                    viol.append({"mech": "retime_mutates_input", "msg": where, "data": {"helper": "get_second_round_kcals_with_redistributed_meat"}})
                for mech, msg in check_retime(a1, a2, new, where):
                    viol.append({"mech": mech, "msg": msg, "data": {"helper": "get_second_round_kcals_with_redistributed_meat", "replay": {"r1": a1.tolist(), "r2": a2.tolist()}}})
                if new is not None and ((a2 - a1) < 0).any():
                    nontrivial += 1
                if e < 2:
                    ex.append({"r1": a1[:5].tolist(), "r2": a2[:5].tolist(), "new": None if new is None else new[:5].tolist()})
            else:
                scale = rnd.choice([1.0, 1e3, 1e5])
                maxb, maxf = _series(rnd, N, scale), _series(rnd, N, scale)
                b0 = maxb * np.array([rnd.choice([0, 0.5, 1, rnd.random()]) for _ in range(N)])
                f0 = maxf * np.array([rnd.choice([0, 0.5, 1, rnd.random()]) for _ in range(N)])
                if rnd.random() < 0.15:
                    f0 = f0 * (1 + 1e-9)  # within rounding of its demand
                above = rnd.random() < 0.25
                if above:
                    # some months start above their demand schedule (arbitrary series): nothing may be lowered, and what is already
                    # above its schedule may not be raised further
                    f0 = f0 * np.array([rnd.choice([1, 1, 1.2, 2]) for _ in range(N)]) + (maxf == 0) * np.array([rnd.choice([0, 0, 1.0]) for _ in range(N)])
                    b0 = b0 * np.array([rnd.choice([1, 1, 1.2, 2]) for _ in range(N)])
                inc = _series(rnd, N, scale * rnd.choice([0.01, 0.3, 2]))
                crops = (b0 + f0) * np.array([rnd.choice([1, 1.5, 3, rnd.uniform(1, 2)]) for _ in range(N)]) + _series(rnd, N, scale * 0.1)
                if rnd.random() < 0.25:
                    # crops already over-committed in some months (less available than what feed and biofuel take)
                    crops = crops * np.array([rnd.choice([1, 1, 0.8, 0.3]) for _ in range(N)])
                args = [x.copy() for x in (b0, f0, inc, maxb, maxf, crops)]
                b1, f1 = Parameters().increase_biofuels_then_feed(b0, f0, inc, maxb, maxf, crops)
                for x, y in zip((b0, f0, inc, maxb, maxf, crops), args):
                    if not np.array_equal(x, y):
                        viol.append({"mech": "bump_mutates_input", "msg": where, "data": {"helper": "increase_biofuels_then_feed"}})
                        break
                for mech, msg in check_bump(args[0], args[1], np.asarray(b1, float), np.asarray(f1, float), args[3], args[4], where):
                    viol.append({"mech": mech, "msg": msg, "data": {"helper": "increase_biofuels_then_feed", "replay": [a.tolist() for a in args]}})
                if ((b1 > args[0]) | (f1 > args[1])).any():
                    nontrivial += 1
                if e < 2:
                    ex.append({"biofuel": [args[0][0], float(b1[0])], "feed": [args[1][0], float(f1[0])], "max": [args[3][0], args[4][0]], "increase": args[2][0]})
        except Exception as err:  # harness or unexpected helper exception on a valid input
            viol.append({"mech": "helper_raised_" + type(err).__name__, "msg": "%s: %r" % (where, err), "data": {"helper": kind}})
    # keep only the first few violations per mechanism in the record
    keep, seen = [], collections.Counter()
    for v in viol:
        seen[v["mech"]] += 1
        if seen[v["mech"]] <= 2:
            keep.append(v)
    return {"viol": keep, "obs": {"direct": kind, "audited": case["examples"], "nontrivial": nontrivial, "examples": ex, "viol_counts": dict(seen)}}


# ---------------------------------------------------------------- real hand-offs
def monitor(tr, case):
    viol, obs = [], {"audited": 0, "handoffs": []}

    def add(lst, what):
        for mech, msg in lst:
            viol.append({"mech": mech, "msg": "%s %s" % (case["iso"], msg), "data": {"iso": case["iso"], "tag": case.get("tag"), "handoff": what}})

    if tr.second is not None and tr.second[1][0] is not None:
        args, ret = tr.second
        ci, c1, t1, ir1 = args[0], args[1], args[2], args[3]
        mhc = ret[4]
        KD = ci["NUTRITION"]["KCALS_DAILY"]
        eaten = {f: np.asarray(getattr(ir1, a).kcals, float) for f, a in ATTR.items()}
        eaten["outdoor_crops"] = (np.asarray(ir1.immediate_outdoor_crops_kcals_equivalent.kcals, float)
                                  + np.asarray(ir1.new_stored_outdoor_crops_kcals_equivalent.kcals, float))
        got = {f: np.asarray(mhc[f].kcals, float) for f in ORDER}
        T = ci["MINIMUM_PERCENT_FED_BEFORE_NONHUMAN_CONSUMPTION_ALLOWED"]
        # (1e-6 billion kcal, CBC's feasibility tolerance with a margin, per person and day of this country)
        add(check_min_needs(eaten, got, float(ir1.percent_people_fed), float(T), KD, "round1->round2 minimum needs", noise=1e-6 * 1e9 / (30.0 * float(ci["POP"]))), "min_needs")
        obs["audited"] += 1
        obs["handoffs"].append({"what": "min_needs", "p1": float(ir1.percent_people_fed), "T": float(T), "pinned_sum_month0": float(sum(got[f][0] for f in ORDER))})
        # ... and what the feed-maximising round actually holds people to: in its solved model each pinned food's human consumption
        # is the handed minimum of that food and month (the code's own band is 1e-4 relative)
        la = next((lp for lp in tr.lps if lp.kind == "to_animals"), None)
        if la is not None:
            conv = 30.0 * float(ci["POP"]) / 1e9
            npin = 0
            for f, var, kk in (("outdoor_crops", "crops_food_to_humans", 1.0), ("stored_food", "stored_food_to_humans", 1.0), ("meat", "meat_eaten", 1.0), ("methane_scp", "methane_scp_to_humans", 1.0),
                               ("cellulosic_sugar", "cellulosic_sugar_to_humans", 1.0), ("seaweed", "seaweed_to_humans", float(la.consts["SEAWEED_KCALS"]))):
                if not la.has(var):
                    continue
                val = np.nan_to_num(la.val(var)) * kk
                want = got[f][: la.N] * conv
                sc = max(1e-9, float(np.abs(want).max()))
                d = np.abs(val - want) - 3e-4 * np.abs(want)
                npin += 1
                if d.max() > 1e-6 * sc + 2e-6:  # (2e-6 billion kcal absolute: the solver's own feasibility tolerance on a row of this model)
                    m = int(d.argmax())
                    add([("pinned_consumption_differs_from_handed_minimum", "feed-maximising round, %s month %d: people are held to %.8g billion kcal, the handed minimum is %.8g" % (f, m, val[m], want[m]))], "min_needs_in_model")
            obs["audited"] += 1
            obs["handoffs"].append({"what": "min_needs_in_model", "foods_pinned": npin})
        # re-timed meat: compare with the raw round-2 herd meat
        if len(tr.herds) >= 2:
            t2 = ret[1]
            raw2, _, _ = herd_meat_milk(tr.herds[1][1], ci, ci["NMONTHS"])
            r1 = np.asarray(t1["each_month_meat_slaughtered"].kcals, float)
            new = np.asarray(t2["each_month_meat_slaughtered"].kcals, float)
            add(check_retime(r1, raw2, new, "round-2 meat re-timing"), "retime")
            obs["audited"] += 1
            obs["handoffs"].append({"what": "retime", "moved": float(np.abs(new - raw2).sum()), "total": float(raw2.sum())})
    elif tr.second is not None:
        # round 2 aborted: legitimate only when the fed herds give less meat in total
        if len(tr.herds) >= 2 and tr.first is not None:
            ci = tr.second[0][0]
            raw2, _, _ = herd_meat_milk(tr.herds[1][1], ci, ci["NMONTHS"])
            r1 = np.asarray(tr.second[0][2]["each_month_meat_slaughtered"].kcals, float)
            add(check_retime(r1, raw2, None, "round-2 abort"), "retime_abort")
            obs["audited"] += 1
            obs["handoffs"].append({"what": "retime_abort", "r1_total": float(r1.sum()), "r2_total": float(raw2.sum())})
    if tr.third is not None and tr.third[0][5] is not None and tr.lps:
        args, ret, snap = tr.third
        ci = args[0]
        t3 = ret[1]
        feed_dem = np.asarray(args[8].in_units_bil_kcals_thou_tons_thou_tons_per_month().kcals, float)
        bio_dem = np.asarray(args[9].in_units_bil_kcals_thou_tons_thou_tons_per_month().kcals, float)
        k2b = ci["POP"] * 30.0 / 1e9  # kcal/person/day -> billion kcal per month
        # the herds behind round 3: a third herd run when round 2 produced feed, otherwise the round-1 herds are reused
        h3 = tr.herds[-1][1] if args[4] is not None else tr.herds[0][1]
        f0 = np.asarray(h3.feed_used.kcals, float)
        f1 = np.asarray(t3["feed"].kcals, float)
        b1 = np.asarray(t3["biofuel"].kcals, float)
        if snap is not None and snap[1] is not None:
            b0 = snap[1] * k2b
            add(check_bump(b0, f0, b1, f1, bio_dem, feed_dem, "round-3 feed/biofuel adjustment"), "bump")
            obs["audited"] += 1
            obs["handoffs"].append({"what": "bump", "biofuel_raised": float((b1 - b0).clip(0).sum()), "feed_raised": float((f1 - f0).clip(0).sum())})
    return viol, obs


def run_case(case, tier):
    if case["kind"] == "pipeline":
        return pipeline.run(case, monitor)
    return direct(case)


def summarize(cases, records, tier):
    ok = [r for r in records if r.get("status") == "ok"]
    dr = [r for r in ok if "direct" in r["obs"]]
    pr = [r for r in ok if "handoffs" in r["obs"]]
    per = collections.Counter()
    nt = collections.Counter()
    for r in dr:
        per[r["obs"]["direct"]] += r["obs"]["audited"]
        nt[r["obs"]["direct"]] += r["obs"]["nontrivial"]
    ho = collections.Counter(h["what"] for r in pr for h in r["obs"]["handoffs"])
    moved = sum(1 for r in pr for h in r["obs"]["handoffs"] if h["what"] == "retime" and h["moved"] > 1e-9)
    bumped = sum(1 for r in pr for h in r["obs"]["handoffs"] if h["what"] == "bump" and (h["biofuel_raised"] > 0 or h["feed_raised"] > 0))
    samples = [{"helper": r["obs"]["direct"], "examples": r["obs"]["examples"]} for r in dr[:: max(1, len(dr) // 6)]][:6]
    samples += [{"iso": r["obs"]["iso"], "tag": r["obs"]["tag"], "handoffs": r["obs"]["handoffs"]} for r in pr if r["obs"]["handoffs"]][:4]
    cov = {
        "evaluations": int(sum(per.values()) + sum(ho.values())),
        "distinct_nontrivial": int(sum(nt.values()) + moved + bumped),
        "rule": "direct: seeded generated arrays per helper (non-trivial = min-needs with a positive cap and food; fill/re-time inputs with both deficits and surpluses; bump calls where something was raised); "
                "real: hand-offs captured at compute_parameters_second/third_round of grid runs (non-trivial = meat actually moved / something actually raised); every generated example is distinct by seed",
        "samples": samples or [{"note": "none"}],
        "direct_examples_by_helper": dict(per), "direct_nontrivial_by_helper": dict(nt),
        "real_handoffs_by_kind": dict(ho), "real_retime_with_meat_moved": moved, "real_bump_with_increase": bumped,
        "pipeline_runs": len(pr),
    }
    for h in ("min_needs", "fill", "retime", "bump"):
        if nt.get(h, 0) == 0:
            cov["inconclusive_reason"] = "no non-trivial generated example for " + h
    if ho.get("min_needs", 0) == 0 or ho.get("bump", 0) == 0:
        cov["inconclusive_reason"] = "no real hand-off captured (%s)" % dict(ho)
    return cov
