"""C07 — herd feeding accounts for energy and starvation consistently."""
import collections
import random

import numpy as np

from props import herd

ASSUMPTIONS = [
    "documented digestion efficiencies 0.6 (grass) and 0.8 (feed) are used by the oracle as constants (the shipped species table has no per-species value); net energy delivered = 0.6*grass eaten + 0.8*feed eaten",
    "fed count when the requirement is not met: |fed - herd * delivered/required| <= 0.5 (the code rounds to whole animals); the same half-animal allowance applies to 'fed <= herd', 'fed = herd when the requirement is met' and 'starving >= 0' because herds are fractional and a delivery within one float rounding of the requirement takes the rounding branch",
    "priority key recomputed independently: (meat kcal per head + monthly gross feed energy per head) / slaughter hours per head, descending; without a per-head meat table the documented fallback is the approximate feed conversion, descending",
]


def gen_cases(tier, seed):
    cases = herd.gen_cases(tier, seed, "C07")
    rnd = random.Random(700 + seed)
    n = 30 if tier == "quick" else 300
    isos = ["ARG", "IND", "DJI", "MNG", "USA", "CHN", "NZL", "WOR", "ETH", "BRA", "FRA", "SWT"]
    for k in range(n):
        cases.append({"kind": "direct_feed", "iso": isos[k % len(isos)], "gen_seed": seed * 99991 + k, "examples": 40, "id": "direct#%d" % k})
    return cases


EG, EF = 0.6, 0.8
ASSUMPTIONS.append("a species' monthly requirement is livestock_unit x regional LSU factor x 29000 MJ/yr/12/4.187 (Mcal) x head count, recomputed from the species' attributes at every feeding call")


def check_call(r, where):
    """r: one recorded feed_the_species call. -> list of (mech,msg)"""
    out = []
    r = dict(r, eg=EG, ef=EF)
    dg, df = r["g0"] - r["g1"], r["f0"] - r["f1"]
    req, herd_n, fed = r["req"], r["herd"], r["fed"]
    sc = max(1e-12, req, r["g0"] * r["eg"], r["f0"] * r["ef"])
    tol = 1e-9 * sc
    if "req_attr" in r and abs(req - r["req_attr"]) > 1e-9 * max(req, r["req_attr"], 1e-300):
        out.append(("requirement_differs_from_species_attributes", "%s: fed against a requirement of %.8g, livestock units x regional factor x head count give %.8g" % (where, req, r["req_attr"])))
    if dg < -tol or df < -tol:
        out.append(("feeding_creates_supply", "%s: grass %+.6g feed %+.6g returned to the pool" % (where, -dg, -df)))
    if r["g1"] < -tol or r["f1"] < -tol:
        out.append(("supply_overdrawn", "%s: pool left at grass %.6g feed %.6g" % (where, r["g1"], r["f1"])))
    if not r["rum"] and abs(dg) > tol:
        out.append(("grass_given_to_non_ruminant", "%s: %.6g grass eaten by a non-ruminant" % (where, dg)))
    delivered = r["eg"] * max(dg, 0) + r["ef"] * max(df, 0)
    # the energy delivered is observed as a difference of pool levels: with a pool many orders of magnitude above the
    # requirement the subtraction itself is only exact to a few ulp of the pool
    cancel = 8 * 2.220446049250313e-16 * (r["eg"] * abs(r["g0"]) + r["ef"] * abs(r["f0"]))
    rtol = 1e-9 * max(req, 1e-300) + cancel
    if delivered > req + rtol + 1e-12 * sc:
        out.append(("more_energy_than_required", "%s: delivered %.8g net > required %.8g" % (where, delivered, req)))
    if abs((req - delivered) - r["bal"]) > 10 * rtol + 1e-12 * sc:
        out.append(("energy_balance_inconsistent", "%s: balance left %.8g but required %.8g - delivered %.8g" % (where, r["bal"], req, delivered)))
    # grass first for ruminants: feed is touched only when grass could not cover the need
    if r["rum"] and df > tol and r["g1"] > tol:
        out.append(("feed_used_before_grass_exhausted", "%s: ruminant ate %.6g feed while %.6g grass was left" % (where, df, r["g1"])))
    # under-delivery although supply was left
    if r["bal"] > 10 * rtol and (r["f1"] > tol or (r["rum"] and r["g1"] > tol)):
        out.append(("requirement_unmet_with_supply_left", "%s: %.6g net still owed with feed %.6g grass %.6g left" % (where, r["bal"], r["f1"], r["g1"])))
    # head counts
    if fed > herd_n + 0.5 + 1e-9 * max(1.0, herd_n):
        mech = "fed_exceeds_herd"
        if req > 0 and delivered < req and (req - delivered) > 0 and abs(fed - round(delivered / (req - delivered) * herd_n)) <= 0.5 + 1e-9 * herd_n:
            mech = "fed_count_divides_by_remaining_requirement"
        elif req == 0 and fed == r["fed_before"]:
            mech = "stale_fed_count_when_requirement_zero"
        out.append((mech, "%s: fed %.1f of a herd of %.1f (required %.6g, delivered %.6g)" % (where, fed, herd_n, req, delivered)))
    elif req > 0 and delivered >= req - rtol:
        if abs(fed - herd_n) > 0.5 + 1e-9 * max(1.0, herd_n):
            out.append(("fully_fed_herd_not_counted_fed", "%s: requirement met but fed %.1f of %.1f" % (where, fed, herd_n)))
    elif req > 0:
        want = herd_n * delivered / req
        if abs(fed - want) > 0.5 + 1e-9 * herd_n + herd_n * cancel / req:
            mech = "partial_fed_count_wrong"
            if (req - delivered) > 0 and abs(fed - round(delivered / (req - delivered) * herd_n)) <= 0.5 + 1e-9 * herd_n:
                mech = "fed_count_divides_by_remaining_requirement"
            out.append((mech, "%s: delivered %.4f%% of the requirement to a herd of %.1f but %.1f counted fed (expected %.1f)" % (
                where, 100 * delivered / req, herd_n, fed, want)))
    else:  # req == 0
        if abs(fed - herd_n) > 1e-9 * max(1.0, herd_n):
            mech = "stale_fed_count_when_requirement_zero" if fed == r["fed_before"] else "zero_requirement_fed_count_wrong"
            out.append((mech, "%s: nothing required, herd %.1f, counted fed %.1f" % (where, herd_n, fed)))
    return out


def direct(case):
    herd.install()
    from src.food_system import animal_populations as ap
    from src.food_system.food import Food

    Food.conversions.set_nutrition_requirements(2100, 47, 51, False, False, 1e6)
    rnd = random.Random(case["gen_seed"])
    animals, _, _ = ap.main(case["iso"], herd.make_food([0.0]), herd.make_food([0.0]), "baseline", remove_first_month=0)
    viol, branches = [], collections.Counter()
    seen = collections.Counter()
    ex = []
    for e in range(case["examples"]):
        a = rnd.choice(animals)
        a.current_population = rnd.choice([0, 1, 7, 1000, 123456, float(int(a.population[0])), rnd.uniform(0, 1e7)])
        a.population_fed = rnd.choice([0, a.current_population, 12345])
        a.reset_NE_balance()
        req = a.NE_balance.kcals
        rum = rnd.random() < 0.6
        # a fifth of the calls leave the flag out: the documented default is "not a ruminant", whatever the species
        # (only for species that are not ruminants: for those the outcome "no grass" is the same whether the default is read as
        # "not a ruminant" or as "what the species is")
        omit = rnd.random() < 0.3 and a.digestion_type != "ruminant"
        if omit:
            rum = False
        eg, ef = a.digestion_efficiency["grass"], a.digestion_efficiency["feed"]
        mode = rnd.choice(["grass_exact", "grass_more", "grass_less_feed_exact", "both_short", "nothing", "feed_only_exact", "feed_only_short", "ample", "tiny_short"])
        if mode == "grass_exact":
            g, f = req / eg, rnd.choice([0, req])
        elif mode == "grass_more":
            g, f = req / eg * rnd.uniform(1, 5), rnd.choice([0, req])
        elif mode == "grass_less_feed_exact":
            k = rnd.random()
            g, f = k * req / eg, (1 - k) * req / ef
        elif mode == "both_short":
            g, f = rnd.random() * 0.5 * req / eg, rnd.random() * 0.45 * req / ef
        elif mode == "nothing":
            g, f = 0.0, 0.0
        elif mode == "feed_only_exact":
            g, f = 0.0, req / ef
        elif mode == "feed_only_short":
            g, f = 0.0, rnd.random() * req / ef
        elif mode == "tiny_short":
            g, f = 0.0, req / ef * (1 - 1e-7)
        else:
            g, f = 10 * req + 1, 10 * req + 1
        G, F = Food(g, 0, 0), Food(f, 0, 0)
        herd._state["feed_calls"] = []
        try:
            if omit:
                a.feed_the_species(G, F)
            else:
                a.feed_the_species(G, F, is_ruminant=rum)
            rec = herd._state["feed_calls"][-1]
        finally:
            herd._state["feed_calls"] = None
        branches[mode + ("/rum" if rum else ("/flag_omitted:" + str(a.digestion_type) if omit else "/mono"))] += 1
        where = "direct %s %s herd=%.1f %s ruminant=%s" % (case["iso"], a.animal_type, a.current_population, mode, "flag omitted (%s)" % a.digestion_type if omit else rum)
        if omit:
            rec = dict(rec, rum=False)
        if e < 3:
            ex.append({k: rec[k] for k in ("type", "rum", "g0", "f0", "req", "herd", "g1", "f1", "bal", "fed")})
        for mech, msg in check_call(rec, where):
            seen[mech] += 1
            if seen[mech] <= 2:
                viol.append({"mech": mech, "msg": msg, "data": {"call": rec, "mode": mode}})
    # one reset, two deliveries (the month's grass, then the month's feed - the use the class's own comment on population_fed
    # describes): the energy account runs across both calls.  (The fed *count* after a second partial delivery is relative to what
    # was still owed, on the unchanged tree too, so only the energy clauses and the fully-fed case are examined here.)
    for e in range(max(8, case["examples"] // 3)):
        a = rnd.choice(animals)
        a.current_population = rnd.choice([7, 1000, 123456, float(int(a.population[0])), rnd.uniform(1, 1e7)])
        a.population_fed = 0
        a.reset_NE_balance()
        req = float(a.NE_balance.kcals)
        if req <= 0:
            continue
        eg, ef = a.digestion_efficiency["grass"], a.digestion_efficiency["feed"]
        k1, k2 = rnd.choice([0.2, 0.5, 0.9, 1.0, 1.5]), rnd.choice([0.1, 0.5, 1.0, 2.0])
        G, F0 = Food(k1 * req / eg, 0, 0), Food(0.0, 0, 0)
        G2, F = Food(0.0, 0, 0), Food(k2 * req / ef, 0, 0)
        herd._state["feed_calls"] = []
        try:
            a.feed_the_species(G, F0, is_ruminant=True)
            a.feed_the_species(G2, F, is_ruminant=True)
            r1, r2 = herd._state["feed_calls"][-2:]
        finally:
            herd._state["feed_calls"] = None
        branches["two_deliveries_after_one_reset"] += 1
        delivered = EG * max(r1["g0"] - r1["g1"], 0) + EF * max(r2["f0"] - r2["f1"], 0)
        where = "direct %s %s herd=%.1f: grass %.2f x need, then feed %.2f x need after one reset" % (case["iso"], a.animal_type, a.current_population, k1, k2)
        tol = 1e-9 * req
        out = []
        if delivered > req + tol:
            out.append(("more_energy_than_required", "%s: %.8g net delivered over the two calls, required %.8g" % (where, delivered, req)))
        if abs((req - delivered) - r2["bal"]) > 10 * tol:
            out.append(("energy_balance_inconsistent", "%s: balance left %.8g but required %.8g - delivered %.8g" % (where, r2["bal"], req, delivered)))
        if r1["g1"] < -tol or r2["f1"] < -tol:
            out.append(("supply_overdrawn", "%s: pool left at grass %.6g feed %.6g" % (where, r1["g1"], r2["f1"])))
        if delivered >= req - tol and abs(r2["fed"] - r2["herd"]) > 0.5 + 1e-9 * r2["herd"]:
            out.append(("fully_fed_herd_not_counted_fed", "%s: requirement met over the two calls but fed %.1f of %.1f" % (where, r2["fed"], r2["herd"])))
        if r2["fed"] > r2["herd"] + 0.5 + 1e-9 * r2["herd"]:
            out.append(("fed_exceeds_herd", "%s: fed %.1f of a herd of %.1f" % (where, r2["fed"], r2["herd"])))
        for mech, msg in out:
            seen[mech] += 1
            if seen[mech] <= 2:
                viol.append({"mech": mech, "msg": msg, "data": {"calls": [r1, r2], "mode": "two_deliveries_after_one_reset"}})
    return {"viol": viol, "obs": {"direct": True, "calls": case["examples"], "branches": dict(branches), "examples": ex, "viol_counts": dict(seen)}}


def run_case(case, tier):
    if case["kind"] == "direct_feed":
        return direct(case)
    try:
        h = herd.run_herd(case)
    except (AssertionError, ValueError, ZeroDivisionError, KeyError, IndexError, TypeError) as e:
        return {"viol": [{"mech": "herd_simulation_raised", "msg": "%s/%s/%s: main() raised %r" % (case["iso"], case["strategy"], case["shape"], e), "data": {"iso": case["iso"]}}],
                "obs": {"iso": case["iso"], "strategy": case["strategy"], "shape": case["shape"], "N": case["N"], "calls": 0, "partial": 0, "full": 0, "zero": 0, "with_meat_table": False, "viol_counts": {}}}
    viol = []
    seen = collections.Counter()

    def bad(mech, msg, **d):
        seen[mech] += 1
        if seen[mech] <= 2:
            d.update(iso=case["iso"], strategy=case["strategy"], shape=case["shape"])
            viol.append({"mech": mech, "msg": "%s/%s/%s %s" % (case["iso"], case["strategy"], case["shape"], msg), "data": d})

    for line in (h.get("wrapper_diff") or [])[:3]:
        bad("wrapper_series_differ_from_direct_run", "through CalculateFeedAndMeat: " + line)

    animals, N, calls = h["animals"], h["N"], h["feed_calls"]
    ns = len(animals)
    partial = full = zero = 0
    if len(calls) != ns * N:
        bad("feed_call_count", "feed_the_species called %d times for %d species x %d months" % (len(calls), ns, N))
    else:
        order = [a.animal_type for a in animals]
        for m in range(N):
            blk = calls[m * ns:(m + 1) * ns]
            if [c["type"] for c in blk] != order:
                bad("feeding_order_changes", "month %d species served in a different order" % m, month=m)
            # pools chain from call to call and start at the month's supply
            if abs(blk[0]["g0"] - h["grass_in"][m]) > 1e-9 * max(1.0, h["grass_in"][m]) or abs(blk[0]["f0"] - h["feed_in"][m]) > 1e-9 * max(1.0, h["feed_in"][m]):
                bad("month_supply_not_offered", "month %d: first species offered grass %.6g feed %.6g, supply %.6g / %.6g" % (m, blk[0]["g0"], blk[0]["f0"], h["grass_in"][m], h["feed_in"][m]), month=m)
            unsat_any, unsat_rum = None, None
            for k, c in enumerate(blk):
                where = "month %d %s" % (m, c["type"])
                if c["rum"] != (c["digestion"] == "ruminant"):
                    bad("ruminant_flag_wrong", "%s: offered grass=%s but digestion type %s" % (where, c["rum"], c["digestion"]), month=m)
                for mech, msg in check_call(c, where):
                    bad(mech, msg, month=m, species=c["type"], call=c)
                df, dg = c["f0"] - c["f1"], c["g0"] - c["g1"]
                tol = 1e-9 * max(1e-12, c["req"])
                if df > tol and unsat_any is not None:
                    bad("priority_order_violated", "%s ate feed although earlier %s was left unsatisfied" % (where, unsat_any), month=m)
                if dg > tol and unsat_rum is not None:
                    bad("priority_order_violated", "%s ate grass although earlier ruminant %s was left unsatisfied" % (where, unsat_rum), month=m)
                if c["bal"] > 10 * tol:
                    unsat_any = unsat_any or c["type"]
                    if c["rum"]:
                        unsat_rum = unsat_rum or c["type"]
                    partial += c["req"] > 0 and c["bal"] < c["req"] - 10 * tol
                    zero += c["req"] > 0 and c["bal"] >= c["req"] - 10 * tol
                else:
                    full += c["req"] > 0
                if k + 1 < ns and (abs(blk[k + 1]["g0"] - c["g1"]) > 1e-9 * max(1.0, c["g0"]) or abs(blk[k + 1]["f0"] - c["f1"]) > 1e-9 * max(1.0, c["f0"])):
                    bad("pool_not_chained", "%s: next species offered a different pool" % where, month=m)
    fu, gu = h["feed_used"], h["grass_used"]
    if (fu - h["feed_in"]).max() > 1e-9 * max(1.0, h["feed_in"].max()) or fu.min() < -1e-9 * max(1.0, h["feed_in"].max()):
        bad("feed_used_exceeds_supplied", "feed used outside [0, supplied]: max over %.6g" % (fu - h["feed_in"]).max())
    if (gu - h["grass_in"]).max() > 1e-9 * max(1.0, h["grass_in"].max()) or gu.min() < -1e-9 * max(1.0, h["grass_in"].max()):
        bad("grass_used_exceeds_supplied", "grass used outside [0, supplied]: max over %.6g" % (gu - h["grass_in"]).max())
    # starving count is the remainder and never negative
    for a in animals:
        sp = np.array(a.population_starving_pre_slaughter, float)
        if sp.min() < -(0.5 + 1e-9 * max(1.0, max(a.population))):
            mech = "negative_starving_count"
            bad(mech, "%s: starving count %.1f in month %d" % (a.animal_type, sp.min(), int(sp.argmin()) - 1), species=a.animal_type)
    # priority order recomputed independently
    one_lsu = ((29000 / 12) / 4.187) * 1000 / 1e9
    keys = []
    for a in animals:
        if h["kd"] is not None:
            kd = h["kd"]
            if a.animal_type == "chicken":
                kph = kd["KCALS_PER_CHICKEN"]
            elif a.animal_type == "pig":
                kph = kd["KCALS_PER_PIG"]
            else:
                kph = kd["KCALS_PER_%s_ANIMAL" % a.animal_size.upper()]
            keys.append((kph + a.livestock_unit * one_lsu / a.digestion_efficiency["feed"]) / a.animal_slaughter_hours)
        else:
            keys.append(a.approximate_feed_conversion)
    if any(keys[i] < keys[i + 1] - 1e-12 * abs(keys[i + 1]) for i in range(len(keys) - 1)):
        i = [i for i in range(len(keys) - 1) if keys[i] < keys[i + 1] - 1e-12 * abs(keys[i + 1])][0]
        bad("species_not_in_priority_order", "%s (key %.6g) is served before %s (key %.6g)" % (animals[i].animal_type, keys[i], animals[i + 1].animal_type, keys[i + 1]),
            with_meat_table=h["kd"] is not None)
    obs = {"iso": case["iso"], "strategy": case["strategy"], "shape": case["shape"], "N": N, "calls": len(calls), "partial": int(partial), "full": int(full), "zero": int(zero),
           "with_meat_table": h["kd"] is not None, "wrapper_compared": h.get("wrapper_diff") is not None, "viol_counts": dict(seen)}
    return {"viol": viol, "obs": obs}


def summarize(cases, records, tier):
    ok = [r for r in records if r.get("status") == "ok"]
    runs = [r for r in ok if "strategy" in r["obs"]]
    dr = [r for r in ok if r["obs"].get("direct")]
    br = collections.Counter()
    for r in dr:
        br.update(r["obs"]["branches"])
    calls = sum(r["obs"]["calls"] for r in ok)
    partial = sum(r["obs"]["partial"] for r in runs)
    nt = {(r["obs"]["iso"], r["obs"]["strategy"], r["obs"]["shape"], r["obs"]["N"]) for r in runs if r["obs"]["partial"] > 0 and r["obs"]["full"] > 0}
    cov = {
        "evaluations": int(calls),
        "distinct_nontrivial": len(nt) + len(br),
        "rule": "evaluations = feed_the_species calls checked (recorded inside real herd runs + direct boundary calls on real species objects); non-trivial herd run = one in which some species was fully fed and some species only partially; "
                "distinct by (iso, strategy, supply shape, horizon) plus distinct direct branch labels",
        "samples": [{k: r["obs"][k] for k in ("iso", "strategy", "shape", "N", "calls", "partial", "full", "zero")} for r in runs[:: max(1, len(runs) // 6)]][:8]
        + [{"direct_examples": r["obs"]["examples"]} for r in dr[:2]],
        "herd_runs": len(runs), "direct_calls_by_branch": dict(br),
        "calls_partially_fed": int(partial), "calls_fully_fed": int(sum(r["obs"]["full"] for r in runs)), "calls_nothing_delivered": int(sum(r["obs"]["zero"] for r in runs)),
        "runs_with_meat_table_priority": sum(1 for r in runs if r["obs"]["with_meat_table"]),
        "runs_also_compared_through_the_wrapper": sum(1 for r in runs if r["obs"].get("wrapper_compared")),
    }
    if partial == 0:
        cov["inconclusive_reason"] = "partially-fed branch never reached inside herd runs"
    if runs and not cov["runs_also_compared_through_the_wrapper"]:
        cov["inconclusive_reason"] = "no herd run was compared through the CalculateFeedAndMeat wrapper"
    if not br:
        cov["inconclusive_reason"] = "no direct calls evaluated"
    return cov
