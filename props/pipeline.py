"""Shared driver of the pipeline properties (C01, C02, C03, C04, C05, C18b):
run the real three-round pipeline once under the capture layer, then let the
property's offline monitor audit the recorded trace."""
import collections

from vlib import capture, workload


def run(case, monitor):
    tr = capture.run_pipeline(case)
    obs = {"iso": case["iso"], "tag": case.get("tag"), "n_lps": len(tr.lps), "wall": round(tr.wall, 2),
           "optkey": hash(workload.opt_key(case["opts"])) & 0xFFFFFFFF}
    if tr.error is not None:
        obs["run_failed"] = capture.failure_class(tr)
        obs["error"] = tr.error[:200]
    viol, mobs = monitor(tr, case)
    obs.update(mobs)
    obs["counters"] = dict(capture.COUNTERS)
    return {"viol": viol, "obs": obs}


def base_summary(cases, records, key_nontrivial, rule, sample_fn, min_audited):
    ok = [r for r in records if r.get("status") == "ok"]
    audited = [r for r in ok if r["obs"].get("audited", 0) > 0]
    failed = collections.Counter(r["obs"].get("run_failed") for r in ok if r["obs"].get("run_failed"))
    distinct = {(r["obs"]["iso"], r["obs"]["optkey"]) for r in audited if key_nontrivial(r)}
    samples = []
    step = max(1, len(audited) // 8)
    for r in audited[::step][:10]:
        samples.append(sample_fn(r))
    counters = collections.Counter()
    for r in ok:
        # counters are cumulative per worker process; keep the max seen per name as a lower bound and the
        # per-record audited count as the exact measure
        pass
    cov = {
        "evaluations": int(sum(r["obs"].get("audited", 0) for r in ok)),
        "distinct_nontrivial": len(distinct),
        "rule": rule,
        "samples": samples or [{"note": "nothing audited"}],
        "runs_total": len(cases),
        "runs_audited": len(audited),
        "runs_failed_by_class": dict(failed),
        "countries": len({c["iso"] for c in cases}),
        "option_vectors": len({workload.opt_key(c["opts"]) for c in cases}),
    }
    if len(audited) < min_audited:
        cov["inconclusive_reason"] = "only %d runs audited (floor %d)" % (len(audited), min_audited)
    return cov, ok, audited
