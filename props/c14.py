"""C14 — a run's result depends only on its own inputs.

Each case is a *history*: a sequence of (country, scenario) runs executed in one
process.  The digest of every run in the history must be bit-equal to the digest of
the same run executed alone in a fresh interpreter process."""
import collections
import copy
import json
import os
import random
import subprocess
import tempfile

from vlib import capture, digest, env, workload

ASSUMPTIONS = [
    "digest = headline, every Food-valued attribute of the returned interpreter (values and unit labels), meat and herd dictionaries, the optimiser objectives of all rounds and the herd trajectories of all herd simulations, hashed from the raw float bytes (bit-exact)",
    "reference = the same (country, options) executed alone by vlib/fresh_run.py in a new interpreter process (PYTHONHASHSEED=0)",
    "runs that raise are part of histories on purpose; their digest is the exception class and message",
]
WATCHDOG_S = {"quick": 1500, "thorough": 5 * 3600}


def variants(rnd):
    """A pool of deliberately different runs (population span, nutrition, intake mode, scale, horizon, resilient foods, failing)."""
    b = workload.base_country
    g = dict([x for x in workload.manuscript_presets() if x[0] == "ms:fig3:example_scenario"][0][1])
    pool = [
        ("ARG", b(scenario="all_resilient_foods", waste="doubled_prices_in_country")),
        ("LUX", b(nutrition="baseline", NMONTHS=48, shutoff="continued")),
        ("CHN", b(meat_strategy="baseline_breeding", intake_constraints="disabled_for_humans", scenario="seaweed")),
        ("DJI", b(grasses="baseline", crop_disruption="zero", fish="baseline", nutrition="baseline", shutoff="continued", ratio_stocks_untouched="baseline")),
        ("USA", b(scenario="industrial_foods", ratio_stocks_untouched="no_stored_between_years", shutoff="continued_after_10_percent_fed", NMONTHS=72)),
        ("WOR", g),
        ("WOR", dict(g, scenario="all_resilient_foods", nutrition="baseline", NMONTHS=60)),
        ("IND", b(cull="dont_eat_culled", stored_food="zero", meat_strategy="feed_only_ruminants")),
        ("SWT", b(scenario="relocated_crops", seasonality="no_seasonality", waste="zero", rabbit_head=5000)),
        ("NZL", b(scenario="greenhouse", shutoff="short_delayed_shutoff", kg_meat_per_large_animal=300)),
        ("EST", b(scenario="all_resilient_foods_and_more_area", MINIMUM_PERCENT_FED_BEFORE_NONHUMAN_CONSUMPTION_ALLOWED=50, shutoff="continued")),
        # small populations under the stock regimes that are not stored between years (the optimiser has special-case
        # tolerances for POP < 1e7; whatever such a run changes must not outlive it)
        ("LSO", b(ratio_stocks_untouched="no_stored_between_years", shutoff="continued")),
        ("EST", b(ratio_stocks_untouched="baseline_no_stored_between_years", scenario="all_resilient_foods", NMONTHS=72)),
        # failing / rejected runs
        ("ARG", b(fat="required")),
        ("BRA", b(shutoff="no_such_schedule")),
    ]
    # ... and a few seeded random ones (rows with zeros or tiny populations x random option vectors)
    isos = workload.all_isos()
    cand = [i for i in workload.HOSTILE + workload.ZERO_ROWS if i in isos and i != "WOR"]
    for _ in range(4):
        pool.insert(-2, (rnd.choice(cand), workload.random_options(rnd, overrides=False)))
    return pool


def gen_cases(tier, seed):
    rnd = random.Random(1400 + seed)
    pool = variants(rnd)
    good = [p for p in pool if p[1].get("fat") != "required" and p[1].get("shutoff") != "no_such_schedule"]
    bad = [p for p in pool if p not in good]
    hist = []
    n = 12 if tier == "quick" else 96
    for k in range(n):
        kind = ["permutation", "repeat", "sandwich", "scale_alternation", "after_failure", "shared_options_object", "nutrition_alternation", "random"][k % 8]
        if kind == "permutation":
            runs = rnd.sample(good, 4)
            rnd.shuffle(runs)
        elif kind == "repeat":
            a = rnd.choice(good)
            runs = [a, a, rnd.choice(good), a]
        elif kind == "sandwich":
            a, b_ = rnd.sample(good, 2)
            runs = [a, b_, a, b_, a]
        elif kind == "scale_alternation":
            w = [p for p in good if p[0] == "WOR"]
            c = [p for p in good if p[0] != "WOR"]
            runs = [rnd.choice(c), rnd.choice(w), rnd.choice(c), rnd.choice(w), rnd.choice(c)]
        elif kind == "after_failure":
            a = rnd.choice(good)
            runs = [a, rnd.choice(bad), a, rnd.choice(bad), rnd.choice(good)]
        elif kind == "shared_options_object":
            a = rnd.choice([p for p in good if p[0] != "WOR"])
            others = [i for i in ("LUX", "DJI", "ARG", "MNG", "FRA") if i != a[0]]
            runs = [a, (rnd.choice(others), a[1]), a, (rnd.choice(others), a[1])]
        elif kind == "nutrition_alternation":
            a = rnd.choice([p for p in good if p[0] != "WOR"])
            a2 = (a[0], dict(a[1], nutrition="baseline" if a[1]["nutrition"] == "catastrophe" else "catastrophe",
                             intake_constraints="disabled_for_humans" if a[1]["intake_constraints"] == "enabled" else "enabled"))
            runs = [a, a2, a, a2]
        else:
            runs = [rnd.choice(pool) for _ in range(5)]
        hist.append({"kind": "history", "history_kind": kind, "runs": [{"iso": i, "opts": copy.deepcopy(o)} for i, o in runs],
                     "share_opts": kind == "shared_options_object", "id": "history#%d/%s" % (k, kind)})
    # a run with a numeric override followed by the same run without it (and back): an override must not outlive its run
    overrides = [("milk_cattle_head", 50000), ("chicken_head", 123456), ("kg_meat_per_large_animal", 350), ("CROP_PRODUCTION_MULTIPLIER", 0.5),
                 ("MINIMUM_PERCENT_FED_BEFORE_NONHUMAN_CONSUMPTION_ALLOWED", 50), ("meat_sheep_head", 1000), ("GRASSES_PRODUCTION_MULTIPLIER", 2), ("RATIO_STOCKS_UNTOUCHED", 0.5)]
    rnd.shuffle(overrides)
    # (head-count overrides go through the herd tables, the others through the option handling: the quick tier always has two of each)
    heads = [x for x in overrides if x[0].endswith("_head")]
    overrides = (heads[:2] + [x for x in overrides if not x[0].endswith("_head")][:2]) if tier == "quick" else overrides
    for k, (key, val) in enumerate(overrides * (1 if tier == "quick" else 3)):
        iso = rnd.choice(["ARG", "SWT", "IND", "FRA", "MNG", "ETH", "NZL", "PAK"])
        o = workload.base_country(scenario=rnd.choice(["no_resilient_foods", "all_resilient_foods"]), shutoff=rnd.choice(["continued", "long_delayed_shutoff"]),
                                  ratio_stocks_untouched=rnd.choice(["zero", "baseline"]), NMONTHS=rnd.choice([120, 72]))
        o2 = dict(o)
        o2[key] = val
        runs = [(iso, o2), (iso, o), (iso, o2), (iso, o)]
        hist.append({"kind": "history", "history_kind": "override_then_plain", "runs": [{"iso": i, "opts": copy.deepcopy(x)} for i, x in runs], "share_opts": False,
                     "id": "override#%d/%s" % (k, key)})
    # the same country run with one option family flipped, then as it was: anything remembered per country (rather than per
    # run) from the first run shows in the second.  Every option family is flipped in some history of the tier.
    fams = workload.families("country")
    keys = sorted(fams)
    rnd.shuffle(keys)
    nflip = 8 if tier == "quick" else 4 * len(keys)
    isos_all = workload.all_isos()
    for k in range(nflip):
        key = keys[k % len(keys)]
        iso = rnd.choice(["ARG", "CHL", "VNM", "IDN", "FRA", "ETH", "JPN", "ZAF", "KOR", "NZL"] + rnd.sample(isos_all, 4))
        o = workload.base_country(scenario=rnd.choice(["no_resilient_foods", "all_resilient_foods"]), NMONTHS=rnd.choice([120, 72]))
        if key == "seasonality" or rnd.random() < 0.5:
            o["seasonality"] = "country"
        alt = [v for v in fams[key] if v != o.get(key)]
        o2 = dict(o)
        o2[key] = rnd.choice(alt)
        key2 = None
        if tier == "quick" or rnd.random() < 0.5:
            # quick: two families per history so that all of them are flipped within the tier
            key2 = keys[(k + nflip) % len(keys)]
            if key2 != key:
                o2[key2] = rnd.choice([v for v in fams[key2] if v != o.get(key2)])
        runs = [(iso, o2), (iso, o), (iso, o2)]
        hist.append({"kind": "history", "history_kind": "same_country_option_flip", "runs": [{"iso": i, "opts": copy.deepcopy(x)} for i, x in runs], "share_opts": False,
                     "flipped": [key] + ([key2] if key2 and key2 != key else []), "id": "flip#%d/%s%s" % (k, key, "+" + key2 if key2 and key2 != key else "")})
    # ... and with every family flipped at once (two different complements), over a rotating list of countries
    rot = ["ARG", "CHL", "VNM", "IDN", "FRA", "ETH", "JPN", "ZAF", "NGA", "NZL", "IND", "CAN"]
    rnd.shuffle(rot)
    for k in range(8 if tier == "quick" else 60):
        iso = rot[k % len(rot)] if k < 2 * len(rot) else rnd.choice(isos_all)
        o = workload.base_country(scenario=rnd.choice(["no_resilient_foods", "all_resilient_foods"]), seasonality="country")
        comps = []
        for _ in range(2):
            o2 = dict(o)
            for key in keys:
                if key == "NMONTHS" and rnd.random() < 0.5:
                    continue
                alt = [v for v in fams[key] if v != o.get(key) and v != "all_crops_die_instantly"]
                o2[key] = rnd.choice(alt)
            comps.append(o2)
        runs = [(iso, comps[0]), (iso, o), (iso, comps[1]), (iso, o)]
        hist.append({"kind": "history", "history_kind": "same_country_all_options_flipped", "runs": [{"iso": i, "opts": copy.deepcopy(x)} for i, x in runs], "share_opts": False,
                     "id": "flipall#%d/%s" % (k, iso)})
    # one ScenarioRunnerNoTrade object serving every run of the history (an interactive session, run_many_options, a test module's
    # module-level runner): what a call returns is its own selection and result, whatever the object served before
    cgood = [p for p in good if p[0] != "WOR"]
    for k in range(4 if tier == "quick" else 24):
        runs = rnd.sample(cgood, 3)
        runs = [runs[0], runs[1], runs[0], runs[2], (runs[1][0], runs[0][1])]
        hist.append({"kind": "history", "history_kind": "one_runner_object", "runs": [{"iso": i, "opts": copy.deepcopy(o)} for i, o in runs], "share_opts": False, "one_runner": True, "save_all": k % 2 == 0,
                     "id": "one_runner#%d" % k})
    isos = workload.all_isos()
    for k in range(4 if tier == "quick" else 24):
        o = rnd.choice(good)[1]
        if o.get("scale") == "global":
            o = workload.base_country(scenario=rnd.choice(["no_resilient_foods", "all_resilient_foods"]))
        o = {kk: v for kk, v in o.items() if not kk.endswith("_head")}
        sel = rnd.sample(isos, rnd.choice([2, 3, 4]))
        hist.append({"kind": "history", "history_kind": "multi_country_batch", "batch": sel, "opts": copy.deepcopy(o), "runs": [], "save_all": k % 2 == 0, "id": "batch#%d" % k})
    # the simulations of one scenario file are a history too: what a simulation is started with is what the same simulation
    # is started with when it is the only one in the file
    for k in range(6 if tier == "quick" else 60):
        hist.append({"kind": "history", "history_kind": "simulations_of_one_yaml_file", "yaml": True, "gen_seed": seed * 811 + k, "runs": [], "id": "yaml#%d" % k})
    return hist


def state_snapshot():
    from src.food_system.food import Food
    from src.utilities.import_utilities import ImportUtilities

    s = {"Food.conversions": {k: repr(v) for k, v in Food.conversions.__dict__.items()}}
    try:
        s["ImportUtilities.country_codes"] = str(len(getattr(ImportUtilities, "country_codes", [])))
    except Exception:
        pass
    return s


def fresh(run):
    d = tempfile.mkdtemp(prefix="allfed_verif_fresh_")
    try:
        cp, op = os.path.join(d, "case.json"), os.path.join(d, "out.json")
        json.dump({"kind": "pipeline", "iso": run["iso"], "opts": run["opts"], "tag": "fresh", "save_all": bool(run.get("save_all"))}, open(cp, "w"))
        envv = dict(os.environ)
        envv["PYTHONHASHSEED"] = "0"
        envv["PYTHONPATH"] = env.REPO + os.pathsep + env.VERIF_ROOT
        subprocess.run([env.PYTHON, os.path.join(env.VERIF_ROOT, "vlib", "fresh_run.py"), cp, op], cwd=env.REPO, env=envv, timeout=600,
                       stdout=subprocess.DEVNULL, stderr=subprocess.DEVNULL)
        if not os.path.exists(op):
            return None
        return json.load(open(op))
    finally:
        import shutil

        shutil.rmtree(d, ignore_errors=True)


def interp_parts(res):
    class _T:
        pass

    t = _T()
    t.error = None
    t.result = res
    t.lps = []
    t.herds = []
    return digest.run_digest(t)[1]


def run_batch(case):
    import contextlib
    import io

    from src.scenarios.run_model_no_trade import ScenarioRunnerNoTrade

    capture.install()
    viol = []
    opts = copy.deepcopy(case["opts"])
    with contextlib.redirect_stdout(io.StringIO()):
        out = ScenarioRunnerNoTrade().run_model_no_trade(title="batch", create_pptx_with_all_countries=False, show_country_figures=False, show_map_figures=False,
                                                        add_map_slide_to_pptx=False, scenario_option=opts, countries_list=list(case["batch"]), return_results=True,
                                                        save_all_results=bool(case.get("save_all")))
    results = out[3]
    import csv

    names = {r["iso3"]: r["country"] for r in workload.country_table()}
    seq = []
    for iso in case["batch"]:
        res = results.get(names[iso])
        if res is None:
            viol.append({"mech": "batch_result_missing", "msg": "batch %s: no result for %s" % (case["batch"], iso), "data": {"iso": iso}})
            continue
        parts = interp_parts(res)
        ref = fresh({"iso": iso, "opts": case["opts"], "save_all": bool(case.get("save_all"))})
        if ref is None:
            return {"status": "inconclusive", "reason": "fresh-process reference run did not report", "viol": [], "obs": {}}
        cmp_parts = ["headline", "interpreter_series", "meat_and_herd_dictionaries"]
        if case.get("save_all"):
            import hashlib

            from vlib import env as _env

            sf = capture.saved_files(_env.scratch_dir(), "batch", names[iso])
            # (in the single-country reference the files carry the same "<country>_<kind>.csv" names after the title)
            parts["saved_files"] = hashlib.sha256(repr(sorted(sf.items())).encode()).hexdigest()[:16] + ":%d" % len(sf)
            cmp_parts.append("saved_files")
        diffp = sorted(p for p in cmp_parts if ref["parts"].get(p) != parts.get(p))
        seq.append((iso, None, parts.get("headline")))
        if diffp:
            viol.append({"mech": "result_depends_on_history", "msg": "batch %s: %s differs from the same run alone in a fresh process in %s (headline %s vs %s)" % (
                case["batch"], iso, diffp, parts.get("headline"), ref["parts"].get("headline")), "data": {"iso": iso, "differs_in": diffp, "history_kind": "multi_country_batch"}})
    return {"viol": viol, "obs": {"history_kind": "multi_country_batch", "runs": len(seq), "distinct_runs": len(seq), "completed_runs": len(seq), "sequence": seq,
                                   "settings_fields_changed_between_runs": []}}


def run_yaml(case):
    import contextlib
    import io

    from src.scenarios import run_scenarios_from_yaml as ry
    from src.scenarios.run_model_no_trade import ScenarioRunnerNoTrade

    rnd = random.Random(case["gen_seed"])
    isos = workload.all_isos()
    settings = {"NMONTHS": rnd.choice([120, 72, 48]), "countries": rnd.choice([rnd.choice(isos), rnd.sample(isos, 3)])}
    if rnd.random() < 0.25:
        del settings["countries"]
    sims = {}
    for j in range(rnd.choice([2, 3, 4])):
        o = workload.random_options(rnd)
        o.pop("NMONTHS", None)
        o["title"] = "simulation %d" % j
        if j < 3 and rnd.random() < 0.5:
            o["NMONTHS"] = rnd.choice([n for n in (120, 72, 48, 24) if n != settings["NMONTHS"]])  # an entry with a horizon of its own
        sims["sim_%d" % j] = o
    orig = ScenarioRunnerNoTrade.run_model_no_trade

    def drive(cfg, web):
        calls = []

        def rec(self, *a, **k):
            calls.append({"title": k.get("title"), "opts": copy.deepcopy(k.get("scenario_option")), "countries": copy.deepcopy(k.get("countries_list")), "postfix": k.get("figure_save_postfix"),
                          "flags": [k.get("return_results"), k.get("save_all_results"), k.get("create_pptx_with_all_countries")]})
            return None

        ScenarioRunnerNoTrade.run_model_no_trade = rec
        try:
            with contextlib.redirect_stdout(io.StringIO()):
                ry.run_scenarios_from_yaml(copy.deepcopy(cfg), False, False, web)
        finally:
            ScenarioRunnerNoTrade.run_model_no_trade = orig
        return calls

    web = bool(case["gen_seed"] % 2)
    viol = []
    try:
        whole = drive({"settings": settings, "simulations": sims}, web)
        alone = [drive({"settings": settings, "simulations": {name: sim}}, web) for name, sim in sims.items()]
    except BaseException as e:  # noqa: BLE001
        if isinstance(e, KeyboardInterrupt):
            raise
        return {"viol": [{"mech": "history_changes_result", "msg": "yaml file with %d simulations: the entry point raised %r" % (len(sims), e), "data": {"history_kind": case["history_kind"], "differs_in": ["raised"]}}],
                "obs": {"history_kind": case["history_kind"], "runs": 0, "distinct_runs": 0, "completed_runs": 0, "sequence": [], "settings_fields_changed_between_runs": []}}
    if len(whole) != len(sims):
        viol.append({"mech": "history_changes_result", "msg": "yaml file with %d simulations made %d model calls" % (len(sims), len(whole)), "data": {"history_kind": case["history_kind"], "differs_in": ["number_of_calls"]}})
    for k, (name, w) in enumerate(zip(sims, whole)):
        a = alone[k][0] if alone[k] else None
        if a != w:
            diffp = sorted(kk for kk in w if a is None or a.get(kk) != w.get(kk))
            od = sorted(kk for kk in set(w["opts"] or {}) | set((a or {}).get("opts") or {}) if (w["opts"] or {}).get(kk) != ((a or {}).get("opts") or {}).get(kk))
            viol.append({"mech": "history_changes_result", "msg": "yaml file: simulation %d of %d (%s) is started with different %s (options %s: %s) than when it is the only simulation in the file; own-horizon entries: %s" % (
                k + 1, len(sims), name, diffp, od, {kk: ((w["opts"] or {}).get(kk), ((a or {}).get("opts") or {}).get(kk)) for kk in od[:3]}, [n for n, s_ in sims.items() if "NMONTHS" in s_]),
                "data": {"history_kind": case["history_kind"], "position": k, "differs_in": diffp, "option_keys": od[:6]}})
    return {"viol": viol[:3], "obs": {"history_kind": case["history_kind"], "runs": len(whole), "distinct_runs": len(sims), "completed_runs": len(whole), "sequence": list(sims),
                                      "settings_fields_changed_between_runs": []}}


def run_case(case, tier):
    if case.get("batch"):
        return run_batch(case)
    if case.get("yaml"):
        return run_yaml(case)
    viol = []
    refs = {}
    seq = []
    shared = {}
    state_changes = []
    one_runner = None
    if case.get("one_runner"):
        from src.scenarios.run_model_no_trade import ScenarioRunnerNoTrade

        one_runner = ScenarioRunnerNoTrade()
    for k, run in enumerate(case["runs"]):
        key = json.dumps([run["iso"], sorted((a, str(b)) for a, b in run["opts"].items())])
        if case.get("share_opts"):
            okey = json.dumps(sorted((a, str(b)) for a, b in run["opts"].items()))
            opts_obj = shared.setdefault(okey, run["opts"])  # the very same dict object for every run that uses these options
        else:
            opts_obj = run["opts"]
        before = state_snapshot()
        opts_before = copy.deepcopy(opts_obj)
        tr = capture.run_pipeline({"kind": "pipeline", "iso": run["iso"], "opts": opts_obj, "tag": "h%d" % k, "save_all": bool(case.get("save_all")) and run["iso"] != "WOR"}, share_opts=bool(case.get("share_opts")),
                                  runner=one_runner if run["iso"] != "WOR" else None)
        after = state_snapshot()
        if opts_obj != opts_before:
            viol.append({"mech": "caller_options_modified_by_run", "msg": "history %s run %d (%s): the option dictionary passed in was modified" % (case["id"], k, run["iso"]),
                         "data": {"iso": run["iso"], "position": k}})
        ch = [p for p in after["Food.conversions"] if after["Food.conversions"].get(p) != before["Food.conversions"].get(p)]
        state_changes.append(len(ch))
        full, parts = digest.run_digest(tr)
        seq.append({"iso": run["iso"], "digest": full, "parts": parts, "failed": tr.error_type, "key": key})
        if key not in refs:
            refs[key] = fresh(dict(run, save_all=bool(case.get("save_all")) and run["iso"] != "WOR"))
    nonfail = 0
    for k, s in enumerate(seq):
        ref = refs[s["key"]]
        if ref is None:
            return {"status": "inconclusive", "reason": "fresh-process reference run did not report", "viol": [], "obs": {}}
        if s["failed"] is None:
            nonfail += 1
        if ref["digest"] != s["digest"]:
            diffp = sorted(p for p in set(ref["parts"]) | set(s["parts"]) if ref["parts"].get(p) != s["parts"].get(p))
            prev = "%s%s" % (seq[k - 1]["iso"], "(failed)" if seq[k - 1]["failed"] else "") if k else "nothing"
            viol.append({"mech": "result_depends_on_history", "msg": "history %s: run %d (%s) after %s differs from the same run alone in a fresh process in %s (headline %s vs %s)" % (
                case["id"], k, s["iso"], prev, diffp, s["parts"].get("headline"), ref["parts"].get("headline")),
                "data": {"iso": s["iso"], "position": k, "previous": prev, "differs_in": diffp, "history_kind": case["history_kind"]}})
    # repeated runs inside the history must also agree with each other
    byk = collections.defaultdict(set)
    for s in seq:
        byk[s["key"]].add(s["digest"])
    for key, ds in byk.items():
        if len(ds) > 1:
            viol.append({"mech": "repeated_run_differs_within_history", "msg": "history %s: the same run gave %d different results within one process" % (case["id"], len(ds)),
                         "data": {"history_kind": case["history_kind"]}})
    return {"viol": viol, "obs": {"history_kind": case["history_kind"], "runs": len(seq), "distinct_runs": len(refs), "completed_runs": nonfail,
                                   "sequence": [(s["iso"], s["failed"], s["parts"].get("headline")) for s in seq],
                                   "settings_fields_changed_between_runs": state_changes}}


def summarize(cases, records, tier):
    ok = [r for r in records if r.get("status") == "ok"]
    kinds = collections.Counter(r["obs"]["history_kind"] for r in ok)
    cov = {
        "evaluations": int(sum(r["obs"]["runs"] for r in ok)),
        "distinct_nontrivial": len([r for r in ok if r["obs"]["distinct_runs"] >= 2 and r["obs"]["completed_runs"] >= 2]),
        "rule": "one case = one history (sequence of runs in one process) compared run by run with fresh-process references; evaluations = in-history runs compared; non-trivial = a history with at least two distinct runs of which at least two completed; histories are distinct by construction (kind x seed)",
        "samples": [{"history_kind": r["obs"]["history_kind"], "sequence": r["obs"]["sequence"]} for r in ok[:6]] or [{"note": "none"}],
        "histories_by_kind": dict(kinds), "fresh_process_references": int(sum(r["obs"]["distinct_runs"] for r in ok)),
        "runs_that_changed_process_wide_settings": int(sum(1 for r in ok for c in r["obs"]["settings_fields_changed_between_runs"] if c > 0)),
    }
    if len(ok) < 0.75 * len(cases):
        cov["inconclusive_reason"] = "only %d of %d histories completed" % (len(ok), len(cases))
    return cov
