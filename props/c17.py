"""C17 — shipped input tables are exactly what the import pipeline derives from raw data."""
import collections
import concurrent.futures
import os
import random
import shutil
import subprocess
import tempfile

import numpy as np

from vlib import env

ASSUMPTIONS = [
    "the 21 import scripts are re-run with the repository's interpreter in a git-initialised scratch copy of the working tree's src/, data/ and scripts/ (outside /repo and /verif, removed afterwards); every processed table and the combined table are deleted from the copy first, so a script that writes nothing is noticed",
    "the 20 table scripts are independent of each other (each reads only raw data) and are run concurrently; import_food_data.py, which merges their outputs, runs last as in scripts/run_all_imports.sh",
    "comparison is byte for byte; a difference is then localised cell by cell",
    "the import scripts are run in the order and with the arguments of scripts/run_all_imports.sh (the documented entry point), twice in the same scratch tree",
    "averaging helper: inputs are handed in as list, tuple or float64 ndarray, each container twice: the result must not change and the container must be left as it was",
    "averaging helper: a percentage is valid iff -100 <= p <= 1e5 (docstring); expected result = sum(w_i p_i over valid)/sum(w_i over valid), sentinel 9.37e36 iff no valid value carries weight",
]
NEEDS_MODEL = False
WATCHDOG_S = {"quick": 1500, "thorough": 3600}
SCRIPTS = ["create_aquaculture_csv.py", "create_grasses_baseline_csv.py", "create_scp_csv.py", "create_biofuel_csv.py", "create_greenhouse_csv.py", "create_seasonality_csv.py",
           "create_crop_macros_csv.py", "create_head_count_csv.py", "create_seaweed_csv.py", "create_relocation_improvement_csv.py", "create_dairy_csv.py", "create_meat_csv.py",
           "create_feed_csv.py", "create_nuclear_winter_csv.py", "create_food_stock_csv.py", "create_population_csv.py", "create_food_waste_csv.py", "create_pulp_csv.py",
           "create_milk_per_animal_csv.py", "create_meat_per_animal_csv.py"]
LAST = "import_food_data.py"
SENTINEL = 9.37e36


def gen_cases(tier, seed):
    cases = [{"kind": "pipeline", "id": "pipeline"}, {"kind": "table", "id": "table"}]
    n = 14 if tier == "quick" else 60
    for k in range(n):
        cases.append({"kind": "helper", "gen_seed": seed * 3571 + k, "examples": 400 if tier == "quick" else 20000, "id": "helper#%d" % k})
    for k in range(2 if tier == "quick" else 12):
        cases.append({"kind": "call_site", "gen_seed": seed * 7919 + k, "rows": 60 if tier == "quick" else 400, "id": "call_site#%d" % k})
    return cases


def listed_scripts():
    """Scripts named in scripts/run_all_imports.sh, in order."""
    out = []
    for line in open(os.path.join(env.REPO, "scripts", "run_all_imports.sh")):
        line = line.strip()
        if line.startswith("python "):
            out.append(line.split()[1])
    return out


def listed_invocations():
    """{script: [arguments]} exactly as scripts/run_all_imports.sh invokes them."""
    out = {}
    for line in open(os.path.join(env.REPO, "scripts", "run_all_imports.sh")):
        line = line.split("#")[0].strip()
        if line.startswith("python "):
            import shlex

            parts = shlex.split(line)
            out[parts[1]] = parts[2:]
    return out


def pipeline(case):
    viol = []

    def bad(mech, msg, **d):
        viol.append({"mech": mech, "msg": msg, "data": d})

    listed = listed_scripts()
    present = sorted(f for f in os.listdir(os.path.join(env.REPO, "src", "import_scripts_no_food_trade")) if f.endswith(".py") and f != "__init__.py")
    if sorted(listed) != present:
        bad("script_list_differs_from_directory", "run_all_imports.sh lists %d scripts, the directory holds %d (%s)" % (len(listed), len(present), sorted(set(listed) ^ set(present))[:4]))
    scratch = tempfile.mkdtemp(prefix="allfed_verif_import_")
    obs = {"kind": "pipeline", "scripts": len(listed)}
    try:
        files = subprocess.run(["git", "-C", env.REPO, "ls-files", "src", "data", "scripts"], capture_output=True, text=True, check=True).stdout.split("\n")
        ncopied = 0
        for f in files:
            if not f:
                continue
            src = os.path.join(env.REPO, f)
            if not os.path.isfile(src):
                continue
            dst = os.path.join(scratch, f)
            os.makedirs(os.path.dirname(dst), exist_ok=True)
            shutil.copyfile(src, dst)
            ncopied += 1
        subprocess.run(["git", "init", "-q", scratch], check=True, stdout=subprocess.DEVNULL, stderr=subprocess.DEVNULL)
        pdir = os.path.join(scratch, "data", "no_food_trade", "processed_data")
        shipped = {}
        for f in sorted(os.listdir(pdir)):
            if f.endswith(".csv"):
                shipped[os.path.join("processed_data", f)] = open(os.path.join(pdir, f), "rb").read()
                os.remove(os.path.join(pdir, f))
        comb = os.path.join(scratch, "data", "no_food_trade", "computer_readable_combined.csv")
        shipped["computer_readable_combined.csv"] = open(comb, "rb").read()
        os.remove(comb)
        envv = dict(os.environ)
        envv["PYTHONPATH"] = scratch
        envv["MPLBACKEND"] = "Agg"
        envv["PYTHONHASHSEED"] = "0"
        cwd = os.path.join(scratch, "src", "import_scripts_no_food_trade")

        invoc = listed_invocations()
        obs["scripts_invoked_with_arguments"] = sum(1 for a in invoc.values() if a)

        def run(script):
            p = subprocess.run([env.PYTHON, script] + invoc.get(script, []), cwd=cwd, env=envv, capture_output=True, text=True, timeout=900)
            return script, p.returncode, (p.stderr or "")[-400:]

        # the pipeline is run twice in the same tree: from the raw data alone (outputs deleted above), and once more on top of
        # whatever the first run left behind (by-products, intermediate files): both must give the shipped tables
        for attempt, again in ((1, ""), (2, " (second run in the same tree)")):
            first = [s for s in listed if s != LAST]
            if attempt == 2:
                # the raw files' timestamps are not data (a checkout, an unzip or a copy sets them in any order): for the second run
                # they are set in reverse name order (the first run saw them in name order, the order they were copied in)
                rawdir = os.path.join(scratch, "data", "no_food_trade", "raw_data")
                names = sorted(os.path.join(dp, f) for dp, _, fs in os.walk(rawdir) for f in fs)
                t0 = os.path.getmtime(names[0]) if names else 0
                for i, fn in enumerate(names):
                    os.utime(fn, (t0 - 3600.0 * i, t0 - 3600.0 * i))
                obs["raw_files_retimed_for_second_run"] = len(names)
            with concurrent.futures.ThreadPoolExecutor(max_workers=8) as ex:
                res = list(ex.map(run, first))
            failed = [(s, rc, err) for s, rc, err in res if rc != 0]
            for s, rc, err in failed:
                bad("import_script_failed", "%s exited with %d%s: %s" % (s, rc, again, err.strip().split("\n")[-1][:160]), script=s, second_run=bool(again))
            s, rc, err = run(LAST)
            if rc != 0:
                bad("import_script_failed", "%s exited with %d%s: %s" % (s, rc, again, err.strip().split("\n")[-1][:200]), script=s, second_run=bool(again))
            obs["scripts_run"] = len(first) + 1
            obs["scripts_failed"] = len(failed) + (rc != 0)
            # compare
            import io

            import pandas as pd

            same = 0
            cells = 0
            for rel, blob in shipped.items():
                path = os.path.join(scratch, "data", "no_food_trade", rel)
                if not os.path.exists(path):
                    bad("table_not_regenerated", "%s was not written by the pipeline%s" % (rel, again), table=rel, second_run=bool(again))
                    continue
                new = open(path, "rb").read()
                try:
                    cells += int(np.prod(pd.read_csv(io.BytesIO(blob)).shape))
                except Exception:
                    pass
                if new == blob:
                    same += 1
                    continue
                # localise
                a, b = pd.read_csv(io.BytesIO(blob)), pd.read_csv(io.BytesIO(new))
                where = "shape %s vs %s" % (a.shape, b.shape)
                if list(a.columns) != list(b.columns):
                    where = "columns differ: %s" % sorted(set(a.columns) ^ set(b.columns))[:5]
                elif a.shape == b.shape:
                    neq = ~((a == b) | (a.isna() & b.isna()))
                    rows, cols = np.where(neq.values)
                    if len(rows):
                        r0, c0 = int(rows[0]), int(cols[0])
                        where = "%d cells differ, first at row %d (%s) column %s: shipped %r, regenerated %r" % (len(rows), r0, a.iloc[r0, 0], a.columns[c0], a.iloc[r0, c0], b.iloc[r0, c0])
                    else:
                        where = "same parsed values, different bytes (formatting)"
                bad("shipped_table_differs_from_pipeline_output" + ("_on_second_run" if again else ""), "%s%s: %s" % (rel, again, where), table=rel, second_run=bool(again))
            obs["runs_of_the_pipeline"] = attempt
        obs.update(tables=len(shipped), tables_identical=same, cells_compared=cells, files_copied=ncopied)
        extra = [f for f in os.listdir(pdir) if f.endswith(".csv") and os.path.join("processed_data", f) not in shipped]
        if extra:
            bad("pipeline_writes_unshipped_table", "tables written but not shipped: %s" % extra[:4])
    finally:
        shutil.rmtree(scratch, ignore_errors=True)
    return {"viol": viol, "obs": obs}


def table(case):
    import pandas as pd

    env.boot(model=False)
    from src.utilities.import_utilities import ImportUtilities

    viol = []

    def bad(mech, msg, **d):
        if sum(1 for v in viol if v["mech"] == mech) < 3:
            viol.append({"mech": mech, "msg": msg, "data": d})

    t = pd.read_csv(os.path.join(env.REPO, "data", "no_food_trade", "computer_readable_combined.csv"))
    expected = [c.replace("SWZ", "SWT") for c in ImportUtilities.country_codes]
    got = list(t["iso3"])
    if sorted(got) != sorted(expected):
        bad("country_rows_differ_from_expected", "rows for %d codes, expected %d; missing %s unexpected %s duplicated %s" % (
            len(got), len(expected), sorted(set(expected) - set(got))[:4], sorted(set(got) - set(expected))[:4], [k for k, v in collections.Counter(got).items() if v > 1][:4]))
    if t.isnull().values.any():
        r, c = np.where(t.isnull().values)
        bad("missing_value", "%d missing cells, first: %s / %s" % (len(r), t.iloc[r[0], 0], t.columns[c[0]]))
    num = t.select_dtypes(include=[np.number])
    if not np.isfinite(num.values).all():
        bad("non_finite_value", "non-finite numeric cell")
    checks = 0
    seas = t[["seasonality_m%d" % i for i in range(1, 13)]]
    s = seas.sum(axis=1)
    for i in np.where(np.abs(s - 1) > 1e-9)[0]:
        bad("seasonality_does_not_sum_to_one", "%s: seasonality shares sum to %.12f" % (t.iloc[i, 0], s.iloc[i]), iso=t.iloc[i, 0])
    checks += len(t)
    frac_cols = [c for c in t.columns if c.startswith("seasonality_m") or c.startswith("distribution_loss_") or c.startswith("retail_waste_") or c in (
        "fraction_crop_area", "max_area_fraction", "new_area_fraction", "initial_built_fraction", "initial_seaweed_fraction", "percent_of_global_production", "percent_of_global_capex")]
    for c in frac_cols:
        v = t[c].values
        checks += len(v)
        if v.min() < 0 or v.max() > 1:
            i = int(np.argmax((v < 0) | (v > 1)))
            bad("fraction_out_of_range", "%s / %s = %r outside [0, 1]" % (t.iloc[i, 0], c, v[i]), column=c, iso=t.iloc[i, 0])
    red_cols = [c for c in t.columns if "_reduction_year" in c]
    for c in red_cols:
        v = t[c].values
        checks += len(v)
        if v.min() < -1 - 1e-12:
            i = int(v.argmin())
            bad("reduction_below_minus_100_percent", "%s / %s = %r" % (t.iloc[i, 0], c, v[i]), column=c, iso=t.iloc[i, 0])
    qty = [c for c in num.columns if c not in red_cols and c != "power_law_improvement"]
    for c in qty:
        v = t[c].values
        checks += len(v)
        if v.min() < 0:
            i = int(v.argmin())
            bad("negative_quantity", "%s / %s = %r" % (t.iloc[i, 0], c, v[i]), column=c, iso=t.iloc[i, 0])
    # the model's own per-row sanity assertions
    from src.scenarios.run_model_no_trade import ScenarioRunnerNoTrade

    r = ScenarioRunnerNoTrade()
    nver = 0
    for _, row in t.iterrows():
        try:
            r.verify_country_data(row)
            nver += 1
        except AssertionError as e:
            bad("row_fails_model_sanity_check", "%s: %s" % (row["iso3"], str(e)[:100]), iso=row["iso3"])
    return {"viol": viol, "obs": {"kind": "table", "rows": len(t), "columns": t.shape[1], "cells_checked": int(checks), "rows_passing_model_sanity_check": nver}}


def helper(case):
    env.boot(model=False)
    from src.utilities.import_utilities import ImportUtilities as IU

    rnd = random.Random(case["gen_seed"])
    viol, seen = [], collections.Counter()
    nt = 0
    ex = []
    forms = collections.Counter()

    def bad(mech, msg, **d):
        seen[mech] += 1
        if seen[mech] <= 2:
            viol.append({"mech": mech, "msg": msg, "data": d})

    for e in range(case["examples"]):
        n = rnd.choice([1, 2, 3, 4, 5, 12])
        ps = [rnd.choice([rnd.uniform(-100, 200), -100.0, -100.0000001, -99.5, 1e5, 1e5 + 1, 9.37e36, 9.97e36, -1e9, 0.0, rnd.uniform(-100, -99), rnd.uniform(-150, -100),
                          10 ** rnd.uniform(5.0001, 12), rnd.uniform(200, 1e5), float("inf"), float("-inf"), float("nan")]) for _ in range(n)]
        weighted = rnd.random() < 0.6
        if weighted:
            w = [rnd.choice([0.0, rnd.random()]) for _ in range(n)]
            if sum(w) == 0:
                w[rnd.randrange(n)] = 1.0
            tot = sum(w)
            w = [x / tot for x in w]
        else:
            w = [1.0 / n] * n
        valid = [(p, x) for p, x in zip(ps, w) if -100 <= p <= 1e5]
        vw = sum(x for _, x in valid)
        # the caller's vectors in the container types callers use (the import scripts pass lists and pandas/numpy rows);
        # the same containers are handed in twice: the helper is a function of its arguments and leaves them alone
        form = rnd.choice(["list", "list", "tuple", "ndarray", "ndarray"])
        mk = {"list": list, "tuple": tuple, "ndarray": lambda v: np.array(v, dtype=float)}[form]
        cp, cw = mk(ps), mk(w)
        forms[form] += 1
        try:
            got = IU.weighted_average_percentages(cp, cw) if weighted else IU.average_percentages(cp)
            again = IU.weighted_average_percentages(cp, cw) if weighted else IU.average_percentages(cp)
        except AssertionError as err:
            bad("helper_rejects_valid_input", "percentages %s weights %s: AssertionError %s" % (ps, [round(x, 4) for x in w], str(err)[:60]), percentages=ps, weights=w)
            continue
        data = {"percentages": ps, "weights": w, "result": got, "container": form}
        if [repr(float(x)) for x in cp] != [repr(float(x)) for x in ps] or [repr(float(x)) for x in cw] != [repr(float(x)) for x in w]:
            bad("helper_modifies_its_input", "%s input %s became %s (weights %s -> %s)" % (form, ps, list(cp), [round(x, 4) for x in w], [round(float(x), 4) for x in cw]), **data)
        if again != got and not (again != again and got != got):
            bad("average_changes_when_called_again", "same %s handed in twice: first %r then %r (inputs %s)" % (form, got, again, ps), **data)
        if vw <= 1e-12:
            if got != SENTINEL and not (len(valid) and vw == 0 and got == SENTINEL):
                if not (valid and vw < 1e-12):
                    bad("no_valid_value_but_no_sentinel", "no valid percentage carries weight, result %r" % got, **data)
            continue
        nt += 1
        want = sum(p * x for p, x in valid) / vw
        lo = min(p for p, x in valid if x > 0)
        hi = max(p for p, x in valid if x > 0)
        if got == SENTINEL:
            bad("sentinel_although_valid_values", "valid values %s with weight %.4f but the sentinel was returned" % ([p for p, _ in valid][:4], vw), **data)
            continue
        if not (got >= lo - 1e-9 * max(1.0, abs(lo)) and got <= hi + 1e-9 * max(1.0, abs(hi))):  # (a nan result fails this too)
            bad("average_outside_range_of_valid_inputs", "result %.6f outside [%.6f, %.6f] of the valid inputs (inputs %s, weights %s)" % (got, lo, hi, [round(p, 4) if abs(p) < 1e6 else p for p in ps], [round(x, 4) for x in w]), **data)
        elif abs(got - want) > 1e-9 * max(1.0, abs(want)):
            bad("average_differs_from_renormalised_mean", "result %.9f, renormalised mean of the valid values %.9f" % (got, want), **data)
        if e < 2:
            ex.append({"percentages": ps, "weights": [round(x, 4) for x in w], "result": got})
    return {"viol": viol, "obs": {"kind": "helper", "examples": case["examples"], "nontrivial": nt, "samples": ex, "containers": dict(forms), "viol_counts": dict(seen)}}


def call_site(case):
    """The averaging helper as the pipeline uses it: the nuclear-winter script's per-country routine is run on the
    shipped raw rows and on copies of them with impossible cells written in; a recorder on the helper shows what it is
    handed there.  What reaches the helper must be the raw cells themselves (so that it can ignore the impossible ones),
    and what the routine returns for the year must be the renormalised mean of the valid raw cells."""
    env.boot(model=False)
    import io
    import contextlib
    import pandas as pd
    from src.utilities.import_utilities import ImportUtilities as IU

    with contextlib.redirect_stdout(io.StringIO()):
        import src.import_scripts_no_food_trade.create_nuclear_winter_csv as nw
        from src.import_scripts_no_food_trade.create_crop_macros_csv import CropMacros

        macros = CropMacros()
    raw = pd.read_csv(os.path.join(env.REPO, "data", "no_food_trade", "raw_data", "rutgers_nw_production_raw.csv"))
    iso_col = "ISO3 Country Code"
    crops = ["corn", "rice", "soy", "spring_wheat"]
    cols = [iso_col] + ["%s_year%d" % (c, y) for c in crops + ["grasses"] for y in range(1, 11)]
    table = IU.import_csv_from_df(raw[cols], iso_col)
    isos = [i for i in IU.country_codes if i in table and len(table[i]["corn_year1"])]
    rnd = random.Random(case["gen_seed"])
    viol, seen = [], collections.Counter()
    calls = []
    orig = IU.weighted_average_percentages

    def rec(percentages, weights):
        r = orig(percentages, weights)
        calls.append(([float(x) for x in percentages], [float(x) for x in weights], r))
        return r

    def bad(mech, msg, **d):
        seen[mech] += 1
        if seen[mech] <= 2:
            viol.append({"mech": mech, "msg": msg, "data": d})

    same = lambda a, b: a == b or (a != a and b != b)
    IMPOSSIBLE = [float("nan"), -100.0000001, -250.0, -1e9, 9.37e36, 1e5 + 1, float("inf"), float("-inf")]
    n_rows = n_years = n_inj = n_some_rejected = 0
    IU.weighted_average_percentages = staticmethod(rec)
    try:
        for k in range(case["rows"]):
            iso = isos[k % len(isos)] if k < len(isos) and case["gen_seed"] % 7919 == 0 else rnd.choice(isos)
            row = table[iso].copy()
            injected = {}
            if k % 3:  # two thirds of the rows get impossible cells (the shipped table has very few)
                for _ in range(rnd.choice([1, 2, 4, 8])):
                    col = "%s_year%d" % (rnd.choice(crops), rnd.randint(1, 10))
                    v = rnd.choice(IMPOSSIBLE + [-100.0, -99.999, 1e5, 0.0])
                    row[col] = v
                    injected[col] = v
            del calls[:]
            try:
                with contextlib.redirect_stdout(io.StringIO()):
                    out = nw.get_overall_reduction(row, iso, macros)
            except Exception as err:  # noqa: BLE001
                bad("per_country_routine_fails", "%s with cells %s: %r" % (iso, injected, err), iso=iso, injected={c: repr(v) for c, v in injected.items()})
                continue
            n_rows += 1
            n_inj += len(injected)
            if len(calls) != 10:
                bad("helper_not_called_once_per_year", "%s: averaging helper called %d times for 10 years" % (iso, len(calls)), iso=iso)
                continue
            for y in range(1, 11):
                ps, ws, res = calls[y - 1]
                cells = {c: float(row["%s_year%d" % (c, y)].iloc[0]) for c in crops}
                n_years += 1
                # the helper is handed the four raw cells of that year (in some crop order, the weights alongside)
                if sorted(repr(x) for x in ps) != sorted(repr(v) for v in cells.values()):
                    bad("cells_changed_before_averaging", "%s year %d: raw cells %s but the averaging helper was handed %s" % (iso, y, cells, ps), iso=iso, year=y,
                        injected={c: repr(v) for c, v in injected.items()})
                    continue
                # the weight of each cell, recovered from the recorded call (cells are matched by value; equal cells are interchangeable)
                valid = [(p, w) for p, w in zip(ps, ws) if -100 <= p <= 1e5]
                vw = sum(w for _, w in valid)
                got = float(out["crop_reduction_year%d" % y])
                if len(valid) < 4:
                    n_some_rejected += 1
                if not same(got, res):
                    bad("year_value_is_not_the_helper_result", "%s year %d: routine reports %r, helper returned %r" % (iso, y, got, res), iso=iso, year=y)
                if vw <= 1e-12:
                    if got != SENTINEL:
                        bad("no_valid_cell_but_no_sentinel", "%s year %d: no valid cell carries weight (cells %s) but %r is reported" % (iso, y, cells, got), iso=iso, year=y)
                    continue
                want = sum(p * w for p, w in valid) / vw
                lo, hi = min(p for p, w in valid if w > 0), max(p for p, w in valid if w > 0)
                if not (lo - 1e-9 * max(1, abs(lo)) <= got <= hi + 1e-9 * max(1, abs(hi))) or abs(got - want) > 1e-9 * max(1.0, abs(want)):
                    bad("year_value_differs_from_mean_of_valid_cells", "%s year %d: cells %s weights %s -> %r, renormalised mean of the valid cells %r" % (iso, y, ps, [round(w, 4) for w in ws], got, want),
                        iso=iso, year=y, injected={c: repr(v) for c, v in injected.items()})
                g = float(out["grasses_reduction_year%d" % y])
                if not same(g, float(row["grasses_year%d" % y].iloc[0])):
                    bad("grass_cell_changed", "%s year %d: grass cell %r reported as %r" % (iso, y, float(row["grasses_year%d" % y].iloc[0]), g), iso=iso, year=y)
    finally:
        IU.weighted_average_percentages = staticmethod(orig)
    return {"viol": viol, "obs": {"kind": "call_site", "rows": n_rows, "years": n_years, "cells_injected": n_inj, "years_with_a_rejected_cell": n_some_rejected, "countries": len(isos),
                                  "viol_counts": dict(seen)}}


def run_case(case, tier):
    return {"pipeline": pipeline, "table": table, "helper": helper, "call_site": call_site}[case["kind"]](case)


def summarize(cases, records, tier):
    ok = [r for r in records if r.get("status") == "ok"]
    pipe = [r for r in ok if r["obs"]["kind"] == "pipeline"]
    tab = [r for r in ok if r["obs"]["kind"] == "table"]
    hel = [r for r in ok if r["obs"]["kind"] == "helper"]
    cs = [r["obs"] for r in ok if r["obs"]["kind"] == "call_site"]
    p = pipe[0]["obs"] if pipe else {}
    t = tab[0]["obs"] if tab else {}
    cov = {
        "evaluations": int(p.get("scripts_run", 0) + t.get("cells_checked", 0) + sum(r["obs"]["examples"] for r in hel) + sum(c["years"] for c in cs)),
        "distinct_nontrivial": int(p.get("tables", 0) + sum(r["obs"]["nontrivial"] for r in hel)),
        "rule": "evaluations = import scripts executed + table cells checked against the invariants + generated averaging-helper inputs; distinct_nontrivial = tables regenerated and compared byte for byte + helper inputs with at least one valid weighted value",
        "samples": [{"pipeline": p}, {"table": t}] + [{"helper": r["obs"]["samples"]} for r in hel[:2]],
        "scripts_run": p.get("scripts_run"), "tables_compared": p.get("tables"), "tables_byte_identical": p.get("tables_identical"), "cells_in_compared_tables": p.get("cells_compared"),
        "combined_table_rows": t.get("rows"), "combined_table_columns": t.get("columns"), "helper_examples": int(sum(r["obs"]["examples"] for r in hel)),
        "call_site_rows": int(sum(c["rows"] for c in cs)), "call_site_years_audited": int(sum(c["years"] for c in cs)), "call_site_impossible_cells_written": int(sum(c["cells_injected"] for c in cs)),
        "call_site_years_with_a_rejected_cell": int(sum(c["years_with_a_rejected_cell"] for c in cs)),
        "exhaustive": True,
    }
    if cs and not sum(c["years_with_a_rejected_cell"] for c in cs):
        cov["inconclusive_reason"] = "the averaging helper never saw an impossible cell at its pipeline call site"
    if not pipe or p.get("scripts_run", 0) < 21:
        cov["inconclusive_reason"] = "import pipeline did not run completely (%s)" % p
    if not tab:
        cov["inconclusive_reason"] = "combined table not checked"
    return cov
