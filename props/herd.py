"""Shared herd driver of C06 / C07: runs animal_populations.main directly with
generated feed and grass series, with recorders on feed_the_species and on the
slaughter-hour budget, and returns the trajectories plus the recorded events."""
import random

import numpy as np

from vlib import workload

_state = {"installed": False, "feed_calls": None, "hours": None, "G0": {}}

STRATEGIES = ["baseline", "reduced", "feed_only_ruminants"]
SHAPES = ["zero", "tenth", "half", "ample", "seasonal", "random", "step_down", "grass_only", "feed_only", "exact"]
# further shapes, thorough tier only
SHAPES_DEEP = SHAPES + ["spike", "ramp_up", "sparse", "tiny", "huge", "fraction_sweep", "alternating"]


def install():
    if _state["installed"]:
        return
    _state["installed"] = True
    from src.food_system import animal_populations as ap

    orig_hours = ap.calculate_net_slaughter_hours_by_size

    def wh(animals):
        r = orig_hours(animals)
        if _state["hours"] is not None:
            _state["hours"].append(dict(r))
        return r

    ap.calculate_net_slaughter_hours_by_size = wh
    orig_feed = ap.AnimalSpecies.feed_the_species

    def wf(self, grass_input, feed_input, *a, **k):
        # arguments are passed through untouched (a call that leaves the ruminant flag out must reach the function's own default)
        is_ruminant = k["is_ruminant"] if "is_ruminant" in k else (a[0] if a else False)
        rec = None
        if _state["feed_calls"] is not None:
            rec = {"type": self.animal_type, "rum": bool(is_ruminant), "g0": float(grass_input.kcals), "f0": float(feed_input.kcals),
                   "req": float(self.NE_balance.kcals), "herd": float(self.current_population), "fed_before": float(self.population_fed),
                   "eg": self.digestion_efficiency["grass"], "ef": self.digestion_efficiency["feed"], "digestion": self.digestion_type,
                   # the requirement from the species' own attributes at the time of the call: livestock units x regional factor x
                   # 29000 MJ net energy per livestock unit and year (INRAE 2021), in billion kcal per month, x head count
                   "req_attr": float(self.livestock_unit) * float(self.LSU_factor) * (29000.0 / 12.0 / 4.187 * 1000.0 / 1e9) * float(self.current_population)}
        out = orig_feed(self, grass_input, feed_input, *a, **k)
        if rec is not None:
            rec.update(g1=float(out[0].kcals), f1=float(out[1].kcals), bal=float(self.NE_balance.kcals), fed=float(self.population_fed))
            _state["feed_calls"].append(rec)
        return out

    ap.AnimalSpecies.feed_the_species = wf


def make_food(arr):
    from src.food_system.food import Food

    n = len(arr)
    return Food(kcals=np.array(arr, float), fat=np.zeros(n), protein=np.zeros(n), kcals_units="billion kcals each month",
                fat_units="thousand tons each month", protein_units="thousand tons each month")


def demand_scale(iso):
    """Gross energy the country's herds eat in month 0 when supply is unlimited (calibration only)."""
    from src.food_system import animal_populations as ap

    if iso not in _state["G0"]:
        fc, hr = _state["feed_calls"], _state["hours"]
        _state["feed_calls"], _state["hours"] = None, None
        try:
            _, fu, gu = ap.main(iso, make_food([1e12] * 2), make_food([1e12] * 2), "baseline", remove_first_month=0)
            _state["G0"][iso] = (float(fu.kcals[0]), float(gu.kcals[0]))
        finally:
            _state["feed_calls"], _state["hours"] = fc, hr
    return _state["G0"][iso]


def supply(shape, N, f0, g0, rnd):
    """f0/g0: feed / grass the herds would eat in month 0 if unlimited."""
    tot = f0 + g0
    one = np.ones(N)
    if shape == "zero":
        return 0 * one, 0 * one
    if shape == "tenth":
        return 0.1 * tot * one, 0.1 * tot * one
    if shape == "half":
        return 0.3 * tot * one, 0.5 * tot * one
    if shape == "ample":
        return 3 * tot * one, 10 * tot * one
    if shape == "seasonal":
        s = 0.5 + 0.5 * np.sin(np.arange(N) * 2 * np.pi / 12.0)
        return 0.6 * tot * s, 1.2 * tot * s[::-1]
    if shape == "random":
        return (np.array([rnd.uniform(0, 1.5 * tot) for _ in range(N)]), np.array([rnd.uniform(0, 1.5 * tot) for _ in range(N)]))
    if shape == "step_down":
        k = rnd.randrange(1, max(2, N // 2))
        a = np.where(np.arange(N) < k, 2 * tot, rnd.choice([0, 0.05, 0.3]) * tot)
        return a, a * rnd.choice([0, 0.5, 2])
    if shape == "grass_only":
        return 0 * one, rnd.choice([0.3, 1, 4]) * tot * one
    if shape == "feed_only":
        return rnd.choice([0.3, 1, 4]) * tot * one, 0 * one
    if shape == "exact":
        # exactly what the unlimited herds take in month 0 (boundary grass = need, grass+feed = need)
        return f0 * one, g0 * one
    if shape == "spike":
        k = rnd.randrange(N)
        a = np.where(np.arange(N) == k, rnd.choice([1, 5, 50]) * tot, 0.0)
        return a, np.roll(a, rnd.randrange(N)) * rnd.choice([0, 1])
    if shape == "ramp_up":
        r = np.arange(N) / max(1, N - 1)
        return rnd.choice([0.5, 1.5, 3]) * f0 * r, rnd.choice([0.5, 1.5, 3]) * g0 * r
    if shape == "sparse":
        m = np.array([1.0 if rnd.random() < 0.25 else 0.0 for _ in range(N)])
        return 2 * tot * m, 2 * tot * np.array([1.0 if rnd.random() < 0.25 else 0.0 for _ in range(N)])
    if shape == "tiny":
        return rnd.choice([1e-12, 1e-9, 1e-6]) * tot * one, rnd.choice([0, 1e-12, 1e-6]) * tot * one
    if shape == "huge":
        return rnd.choice([1e3, 1e6]) * tot * one, rnd.choice([1e3, 1e6, 0]) * tot * one
    if shape == "fraction_sweep":
        # each month another fraction of what the unlimited herds take: walks every species across its fully-fed boundary
        fr = np.array([rnd.choice([0, 0.05, 0.25, 0.5, 0.75, 0.9, 0.99, 1.0, 1.01, 1.25]) for _ in range(N)])
        gr = np.array([rnd.choice([0, 0.25, 0.5, 0.9, 1.0, 1.1]) for _ in range(N)])
        return f0 * fr, g0 * gr
    if shape == "alternating":
        a = np.where(np.arange(N) % 2 == 0, 2.0, rnd.choice([0.0, 0.2]))
        return tot * a, tot * a[::-1] * rnd.choice([0, 1])
    raise ValueError(shape)


def gen_cases(tier, seed, prop):
    rnd = random.Random(600 + seed)
    isos = workload.all_isos()
    hostile = [i for i in workload.HOSTILE if i in isos] + ["WOR"]
    cases = []
    if tier == "quick":
        # the world row always (the only row where every species coexists), the other hostile rows in rotation
        # (C06 also always runs the six rows whose meat-herd births are negative - the open finding - so that whatever else
        # happens to those herds' books is seen next to it)
        special = ["BLR", "GEO", "MLI", "MDA", "MKD", "BGR"] if prop == "C06" else []
        sel = ["WOR"] + special + workload.zero_rows(seed, 3) + [i for i in workload.rotate(hostile, seed) if i != "WOR"][:13] + rnd.sample(isos, 10)
        sel = list(dict.fromkeys(sel))
        per = 4
    else:
        sel = isos + ["WOR"]
        per = 51
    k = 0
    for iso in sel:
        for j in range(per):
            strat = STRATEGIES[(k + j) % 3]
            shapes = SHAPES if tier == "quick" else SHAPES_DEEP
            shape = shapes[(k * 3 + j) % len(shapes)]
            cases.append({"kind": "herd", "iso": iso, "strategy": strat, "shape": shape,
                          "N": rnd.choice([120, 120, 72, 48, 12, 24]), "gen_seed": seed * 7919 + k * 31 + j,
                          "with_meat_dict": bool((k + j) % 2), "wrapper": (k + j) % 4 == 1, "id": "%s/%s/%s#%d" % (iso, strat, shape, j)})
        k += 1
    return cases


def run_herd(case):
    """-> dict(animals, feed_used, grass_used, feed_in, grass_in, feed_calls, hours) or raises."""
    install()
    from src.food_system import animal_populations as ap
    from src.food_system.food import Food

    Food.conversions.set_nutrition_requirements(2100, 47, 51, False, False, 1e6)
    rnd = random.Random(case["gen_seed"])
    f0, g0 = demand_scale(case["iso"])
    N = case["N"]
    fa, ga = supply(case["shape"], N, f0, g0, rnd)
    kd = None
    if case.get("with_meat_dict"):
        kd = {"KCALS_PER_CHICKEN": 1.6 * 1525 / 1e9, "KCALS_PER_PIG": 90 * 3590 / 1e9, "KCALS_PER_SMALL_ANIMAL": 2.36 * 1525 / 1e9,
              "KCALS_PER_MEDIUM_ANIMAL": 24.6 * 3590 / 1e9, "KCALS_PER_LARGE_ANIMAL": 269.7 * 2750 / 1e9}
        # the table is the country's own (kg of meat per head from its production statistics): other magnitudes, and a zero
        # for a class the statistics report no meat for, are ordinary values - the ranking is defined for all of them
        rk = random.Random(case["gen_seed"] * 31 + 7)
        variant = case["gen_seed"] % 3
        if variant == 1:
            kd = {k: v * rk.uniform(0.3, 3.0) for k, v in kd.items()}
        elif variant == 2:
            kd[rk.choice(sorted(kd))] = 0.0
    _state["feed_calls"], _state["hours"] = [], []
    try:
        animals, fu, gu = ap.main(case["iso"], make_food(fa), make_food(ga), case["strategy"], None, remove_first_month=0,
                                  kcals_per_head_meat_dict=kd)
        calls, hours = _state["feed_calls"], _state["hours"]
    finally:
        _state["feed_calls"], _state["hours"] = None, None
    wrapper_diff = None
    if case.get("wrapper"):
        # the same supplies through CalculateFeedAndMeat, the boundary the optimiser and analysts read the herds at: it
        # drops the first entry (the starting values) of every monthly list, so every list there is the direct run's
        # list without its first entry - same length for all, month m at the same index in all of them
        w = ap.CalculateFeedAndMeat(case["iso"], make_food(fa), make_food(ga), case["strategy"], kd)
        wrapper_diff = []
        direct = {a.animal_type: a for a in animals}
        for wa in w.all_animals:
            da = direct.get(wa.animal_type)
            if da is None:
                wrapper_diff.append("%s only in the wrapper's result" % wa.animal_type)
                continue
            for name, val in vars(da).items():
                if isinstance(val, list) and val and all(isinstance(x, (int, float, np.floating, np.integer)) for x in val):
                    got = getattr(wa, name, None)
                    want = val[1:]
                    if not isinstance(got, list) or len(got) != len(want) or any(not (x == y or (x != x and y != y)) for x, y in zip(got, want)):
                        first = next((i for i, (x, y) in enumerate(zip(got or [], want)) if not (x == y or (x != x and y != y))), None)
                        wrapper_diff.append("%s.%s: %d entries (direct run without its first entry: %d), first differing month index %s" % (
                            wa.animal_type, name, len(got) if isinstance(got, list) else -1, len(want), first))
        if len(w.all_animals) != len(animals):
            wrapper_diff.append("%d herds in the wrapper's result, %d in the direct run" % (len(w.all_animals), len(animals)))
        for label, a, b in (("feed_used", w.feed_used, fu), ("grass_used", w.grass_used, gu)):
            if not np.array_equal(np.asarray(a.kcals, float), np.asarray(b.kcals, float)):
                wrapper_diff.append("%s differs between the wrapper and the direct run" % label)
    return {"wrapper_diff": wrapper_diff, "animals": animals, "feed_used": np.asarray(fu.kcals, float), "grass_used": np.asarray(gu.kcals, float),
            "feed_in": fa, "grass_in": ga, "feed_calls": calls, "hours": hours, "N": N, "kd": kd}
